package main

import (
	"fmt"
	"html"
	"io"
	"math/rand"
	"runtime"
	"strings"
	"sync"

	"github.com/semihalev/twig"
)

// C07, destination dimension — the escaped text reaches whatever the page is written to.
//
// The property is about the rendered output, and a page is not only rendered into a string: Engine.RenderTo and
// Template.RenderTo write to any io.Writer — a strings.Builder (which copies the text at once), or a plain writer that has
// no WriteString method and consumes the bytes it is handed only after a while (a pipe or a socket in front of a slow
// client, a writer behind a lock or a channel). The io.Writer contract gives the writer the whole duration of Write to
// use the slice; whatever the process does in the meantime — another page rendered on the same goroutine (a writer
// that renders a fragment of its own), on another goroutine while this one waits, another user of the library's
// public buffer pool, a garbage collection — the bytes stay what they were and the output of every route is
// literal text + escReg(v), as it is through Render.
//
// Every route of c07Routes × a corpus of values that is the same on every seed (plus random strings) × API route
// (Engine.RenderTo, Load + Template.RenderTo) × writer (c07WriterModes), one and two processors for the mode that
// waits for another goroutine. The expected output is the one the string routes are checked against (the model's
// Escape.escReg, html.EscapeString without a model) — never another render of the engine under test. The page rendered
// in the meantime belongs to an engine of its own, is full of raw special characters, and is checked as well
// (expected text by html.EscapeString).
//
// c07ConcurrentPipes is the genuinely concurrent form: several goroutines render their own route and value to an
// io.Pipe each, read in small pieces, on one processor and on all of them.

// c07HeldWriter has Write only. When `meanwhile` is set it consumes the bytes after meanwhile has run.
type c07HeldWriter struct {
	out       []byte
	meanwhile func(held int) string // "" or what went wrong with the work done in the meantime
	busy      bool
	writes    int
	side      string // first complaint of meanwhile
	changed   string // first chunk that was different after meanwhile: "before → after" in hex
}

func (w *c07HeldWriter) Write(p []byte) (int, error) {
	w.writes++
	if w.meanwhile == nil || w.busy {
		w.out = append(w.out, p...)
		return len(p), nil
	}
	before := string(p)
	w.busy = true
	if msg := w.meanwhile(len(p)); msg != "" && w.side == "" {
		w.side = msg
	}
	w.busy = false
	if w.changed == "" && string(p) != before {
		w.changed = c07Short(before) + " → " + c07Short(string(p))
	}
	w.out = append(w.out, p...)
	return len(p), nil
}

// the page rendered in the meantime: raw special characters in its text and in its value, escaped and not
const c07ForeignUnit = `<other "page" & 'text'>`

var c07ForeignTpls = map[string]string{"page": `<p title="{{ w }}">'&'</p>{{ w|e }}|{% apply escape %}<{{ w }}>{% endapply %}`}

func c07ForeignValue(held int) string {
	return strings.Repeat(c07ForeignUnit, held/len(c07ForeignUnit)+2)
}

func c07ForeignWant(w string) string {
	return `<p title="` + w + `">'&'</p>` + html.EscapeString(w) + "|" + html.EscapeString("<"+w+">")
}

// c07ForeignRender renders the other page for a value at least as long as the bytes being held and checks it.
func c07ForeignRender(eng *twig.Engine, held int, toWriter bool) (msg string) {
	defer func() {
		if p := recover(); p != nil {
			msg = fmt.Sprintf("the other page panics: %v", p)
		}
	}()
	w := c07ForeignValue(held)
	var out string
	var err error
	if toWriter {
		var hw c07HeldWriter
		err = eng.RenderTo(&hw, "page", map[string]any{"w": w})
		out = string(hw.out)
	} else {
		out, err = eng.Render("page", map[string]any{"w": w})
	}
	if err != nil {
		return "the other page fails: " + err.Error()
	}
	if want := c07ForeignWant(w); out != want {
		return "the other page is wrong: " + c07Short(out) + " instead of " + c07Short(want)
	}
	return ""
}

type c07WriterMode struct {
	name  string
	procs int // GOMAXPROCS while the mode runs (0: as it is)
	gc    bool
	// make returns the writer of one render; nil meanwhile = the bytes are consumed at once
	meanwhile func(held int) string
	builder   bool
}

// c07Elsewhere runs jobs on one other goroutine for the whole pass (the writer waits for it inside Write).
type c07Elsewhere struct {
	req  chan int
	resp chan string
}

func c07StartElsewhere(foreign *twig.Engine) *c07Elsewhere {
	x := &c07Elsewhere{req: make(chan int), resp: make(chan string)}
	go func() {
		for held := range x.req {
			x.resp <- c07ForeignRender(foreign, held, true)
		}
	}()
	return x
}

func (x *c07Elsewhere) do(held int) string { x.req <- held; return <-x.resp }
func (x *c07Elsewhere) stop()              { close(x.req) }

// c07PoolUser is another user of the library's public buffer pool: takes a few buffers, fills and returns them.
func c07PoolUser(held int) (msg string) {
	defer func() {
		if p := recover(); p != nil {
			msg = fmt.Sprintf("twig.GetBuffer user panics: %v", p)
		}
	}()
	junk := c07ForeignValue(held)
	var bufs []*twig.Buffer
	for i := 0; i < 4; i++ {
		b := twig.GetBuffer()
		if b.Len() != 0 {
			msg = "twig.GetBuffer returned a buffer that is not empty"
		}
		b.WriteString(junk)
		bufs = append(bufs, b)
	}
	for _, b := range bufs {
		if b.String() != junk {
			msg = "a buffer taken from twig.GetBuffer changed while its user held it"
		}
		b.Release()
	}
	return msg
}

func c07WriterModes(foreign *twig.Engine, elsewhere *c07Elsewhere) []c07WriterMode {
	return []c07WriterMode{
		{name: "strings.Builder", builder: true},
		{name: "plain writer, bytes consumed at once"},
		{name: "plain writer, another page rendered to a plain writer on the same goroutine before the bytes are consumed",
			meanwhile: func(h int) string { return c07ForeignRender(foreign, h, true) }},
		{name: "plain writer, another page rendered to a string on the same goroutine before the bytes are consumed",
			meanwhile: func(h int) string { return c07ForeignRender(foreign, h, false) }},
		{name: "plain writer, another user of twig.GetBuffer runs before the bytes are consumed", meanwhile: c07PoolUser},
		{name: "plain writer, waits for another goroutine that renders another page before the bytes are consumed (one processor)", procs: 1, meanwhile: elsewhere.do},
		{name: "plain writer, waits for another goroutine that renders another page before the bytes are consumed", meanwhile: elsewhere.do},
		{name: "plain writer, a garbage collection and another page before the bytes are consumed", gc: true,
			meanwhile: func(h int) string { runtime.GC(); return c07ForeignRender(foreign, h, true) }},
	}
}

// c07RenderTo renders one value of one route into w by one of the two API routes.
func c07RenderTo(en c07Engine, api int, w io.Writer, v any) (errs string) {
	defer func() {
		if p := recover(); p != nil {
			errs = fmt.Sprintf("panic: %v", p)
		}
	}()
	ctx := map[string]any{"v": v}
	var err error
	if api == 0 {
		err = en.eng.RenderTo(w, en.route.main, ctx)
	} else {
		var t *twig.Template
		if t, err = en.eng.Load(en.route.main); err == nil {
			err = t.RenderTo(w, ctx)
		}
	}
	if err != nil {
		return err.Error()
	}
	return ""
}

var c07APIs = []string{"Engine.RenderTo", "Engine.Load + Template.RenderTo"}

// c07CheckWriters: every route × strs × API route × writer mode; exps[i] is the escaped form of strs[i].
func c07CheckWriters(e *Env, engines []c07Engine, strs, exps []string, kind string) {
	r := e.Rep
	foreign, err := newEngine(c07ForeignTpls)
	if err != nil {
		r.Violate(Violation{Key: "writer-build", What: "the page rendered in the meantime cannot be registered: " + err.Error(), Broken: "C07 (output written to an io.Writer)", Replay: map[string]any{"kind": "writer", "templates": c07ForeignTpls}})
		return
	}
	if msg := c07ForeignRender(foreign, 0, true); msg != "" {
		r.Violate(Violation{Key: "writer-other-page", What: "rendered alone, " + msg, Broken: "C07 (output written to an io.Writer)", Replay: map[string]any{"kind": "writer", "templates": c07ForeignTpls, "w": c07ForeignValue(0)}})
		return
	}
	elsewhere := c07StartElsewhere(foreign)
	defer elsewhere.stop()
	prev := runtime.GOMAXPROCS(0)
	defer runtime.GOMAXPROCS(prev)
	for _, mode := range c07WriterModes(foreign, elsewhere) {
		if mode.procs > 0 {
			runtime.GOMAXPROCS(mode.procs)
		}
		for ri, en := range engines {
			for i, s := range strs {
				if mode.gc && (ri+i)%97 != 0 {
					continue // a collection per Write is slow: a sample of the pairs (the same on every seed)
				}
				for api := range c07APIs {
					var out, errs, changed, side string
					writes := 0
					if mode.builder {
						var sb strings.Builder
						errs = c07RenderTo(en, api, &sb, s)
						out = sb.String()
					} else {
						hw := &c07HeldWriter{meanwhile: mode.meanwhile}
						errs = c07RenderTo(en, api, hw, s)
						out, changed, side, writes = string(hw.out), hw.changed, hw.side, hw.writes
					}
					want := en.route.want(exps[i])
					r.Seen("writer:"+mode.name+":"+en.route.name+":"+c07APIs[api]+":"+s, true)
					if errs == "" && out == want && changed == "" && side == "" {
						continue
					}
					what := "the output differs from literal text + Escape.escReg(v)"
					key := "escape-to-writer"
					switch {
					case errs != "":
						what = "the render fails: " + errs
					case out == want && changed != "":
						what = "the bytes handed to Write changed before Write returned"
					case out == want:
						key, what = "writer-other-page", "while a Write of this page was in progress, "+side
					}
					rc, _ := c07Render(en, s)
					r.Violate(Violation{Key: key, What: fmt.Sprintf("route %s by %s into: %s — %s", en.route.name, c07APIs[api], mode.name, what),
						Broken: "correspondence escape_reg through " + en.route.name + " when the page is written to an io.Writer (C07: the output contains the value escaped, decoding gives back the value; the bytes given to Write are the writer's until Write returns)",
						Replay: map[string]any{"kind": "writer", "input_kind": kind, "route": en.route.name, "templates": en.route.tpls, "api": c07APIs[api], "writer": mode.name, "gomaxprocs": runtime.GOMAXPROCS(0),
							"input_hex": c07Short(s), "impl_hex": c07Short(out), "impl_err": errs, "want_hex": c07Short(want), "impl": truncate(out, 300), "want": truncate(want, 300),
							"writes": writes, "chunk_changed_during_write_hex": changed, "meanwhile": side, "meanwhile_templates": c07ForeignTpls, "meanwhile_value_unit": c07ForeignUnit,
							"same_value_by_Render_is_right": rc == want}})
					if r.Full() {
						runtime.GOMAXPROCS(prev)
						return
					}
					break
				}
			}
		}
		runtime.GOMAXPROCS(prev)
		r.Hit("writer:" + mode.name)
	}
}

// c07ConcurrentPipes: `workers` goroutines, each with a route and a value of its own, render to an io.Pipe again and
// again while the others do the same; the reader takes the page in small pieces, so every Write waits.
func c07ConcurrentPipes(e *Env, engines []c07Engine, esc func([]string) ([]string, error)) error {
	r := e.Rep
	const workers = 8
	rounds := e.N(60, 3000)
	type job struct {
		en      c07Engine
		v, want string
	}
	jobs := make([]job, workers)
	vals := make([]string, workers)
	for w := range jobs {
		vals[w] = strings.Repeat(fmt.Sprintf(`<w%d & "q" 'a' é>`, w), 2+w)
	}
	exps, err := esc(vals)
	if err != nil {
		return err
	}
	for w := range jobs {
		en := engines[(w*len(engines)/workers+int(e.Seed))%len(engines)]
		jobs[w] = job{en, vals[w], en.route.want(exps[w])}
	}
	prev := runtime.GOMAXPROCS(0)
	defer runtime.GOMAXPROCS(prev)
	for _, procs := range []int{1, prev} {
		runtime.GOMAXPROCS(procs)
		var mu sync.Mutex
		var bad *Violation
		var wg sync.WaitGroup
		for w := range jobs {
			wg.Add(1)
			go func(w int) {
				defer wg.Done()
				j := jobs[w]
				piece := make([]byte, 5+w)
				for round := 0; round < rounds; round++ {
					mu.Lock()
					stop := bad != nil
					mu.Unlock()
					if stop {
						return
					}
					pr, pw := io.Pipe()
					api := round % 2
					go func() {
						errs := c07RenderTo(j.en, api, pw, j.v)
						if errs != "" {
							pw.CloseWithError(fmt.Errorf("%s", errs))
						} else {
							pw.Close()
						}
					}()
					var got []byte
					var rerr error
					for {
						n, err := pr.Read(piece)
						got = append(got, piece[:n]...)
						if err != nil {
							if err != io.EOF {
								rerr = err
							}
							break
						}
						runtime.Gosched()
					}
					if rerr == nil && string(got) == j.want {
						continue
					}
					what := "the page is not literal text + Escape.escReg(v)"
					if rerr != nil {
						what = "the render fails: " + rerr.Error()
					}
					mu.Lock()
					if bad == nil {
						all := map[string]any{}
						for o, oj := range jobs {
							all[fmt.Sprintf("worker-%d", o)] = map[string]any{"route": oj.en.route.name, "templates": oj.en.route.tpls, "v": oj.v}
						}
						bad = &Violation{Key: "escape-to-concurrent-writers", What: fmt.Sprintf("route %s rendered to an io.Pipe while %d other goroutines render theirs: %s", j.en.route.name, workers-1, what),
							Broken: "correspondence escape_reg through " + j.en.route.name + " when several pages are written at the same time, each to its own blocking io.Writer (C07: decoding the escaped text gives back the page's own value)",
							Replay: map[string]any{"kind": "concurrent-writers", "gomaxprocs": procs, "workers": workers, "rounds": rounds, "worker": w, "round": round, "api": c07APIs[round%2], "reader_piece": len(piece),
								"route": j.en.route.name, "templates": j.en.route.tpls, "input_hex": c07Short(j.v), "impl_hex": c07Short(string(got)), "want_hex": c07Short(j.want),
								"impl": truncate(string(got), 300), "want": truncate(j.want, 300), "all_workers": all}}
					}
					mu.Unlock()
					return
				}
			}(w)
		}
		wg.Wait()
		runtime.GOMAXPROCS(prev)
		r.Seen(fmt.Sprintf("concurrent-writers:%d", procs), true)
		r.Dist[fmt.Sprintf("concurrent-writers:procs=%d", procs)] += workers * rounds
		if bad != nil {
			r.Violate(*bad)
			return nil
		}
	}
	return nil
}

// c07Writers: the destination dimension on the regression corpus (the same on every seed), random strings and the
// text of the non-string values, then the concurrent form.
func c07Writers(e *Env, engines []c07Engine, fixed []string) error {
	esc := func(strs []string) ([]string, error) {
		if e.Model != nil {
			out, _, err := c07Model(e.Model, "escape_reg", strs)
			e.Rep.Compared += len(strs)
			return out, err
		}
		out := make([]string, len(strs))
		for i, s := range strs {
			out[i] = html.EscapeString(s)
		}
		return out, nil
	}
	exps, err := esc(fixed)
	if err != nil {
		return err
	}
	c07CheckWriters(e, engines, fixed, exps, "regression")
	if e.Rep.Full() {
		return nil
	}
	rng := rand.New(rand.NewSource(e.Seed ^ 0x5c07))
	random := make([]string, e.N(12, 400))
	for i := range random {
		random[i] = c07Rand(rng, 1+rng.Intn(200))
		if i%4 == 3 {
			random[i] = c07Rand(rng, 1000+rng.Intn(3000)) // longer than the library's pooled buffers start with
		}
	}
	if exps, err = esc(random); err != nil {
		return err
	}
	c07CheckWriters(e, engines, random, exps, "random")
	if e.Rep.Full() {
		return nil
	}
	return c07ConcurrentPipes(e, engines, esc)
}
