package main

import (
	"encoding/json"
	"fmt"
	"io"
	"math/rand"
	"os"
	"regexp"
	"strings"
	"sync"
	"time"

	"github.com/semihalev/twig"
)

// C18, the "engine settings × API route" dimension.
//
// The property speaks of "a render": whichever way the application configured the engine and whichever entry
// point it calls, the map it hands in is its own.  The other parts of C18 vary templates and data but render
// everything through Engine.Render of an engine left at its defaults, without globals.  The code between the
// entry point and the private copy of the variables is different for every route and setting (the debug branch
// of Engine.Render / RenderTo builds a carrier context of its own, globals are layered under the variables,
// development mode reloads the template, Template.Render skips the engine), so each of them is a place where
// the caller's map can be adopted instead of copied.  Here:
//
//   - modes: default, SetDebug(true) with the package-level debugger on, SetDebug(true) with the debugger
//     silenced again, SetDebug(true) then SetDebug(false), SetDevelopmentMode(true), SetCache(false),
//     SetAutoReload(true); strict variables on/off; sandbox off / on with a policy that allows everything;
//     templates from RegisterString or from a loader;
//   - globals: none; globals whose names are not keys of the context (string, number, list with spare capacity,
//     map); globals shadowed by context keys; both; both and replaced / extended with AddGlobal between the two
//     renders of the same map; none at first and all of them added between the two renders;
//   - entry points: Engine.Render, Engine.RenderTo, Load + Template.Render, Load + Template.RenderTo,
//     ParseTemplate + Template.Render;
//   - the context: a small map, the 33-key standard context, an empty map, nil;
//   - templates: scoping constructs (set, for, include with / only, macros, import aliases, extends + parent(),
//     apply, do) that also read and shadow the globals.
//
// One case = one engine, one map, rendered twice.  Oracles: (a) the deep walk of the map (values, spare capacity,
// identities) is the same after each render - and after an unrelated render on another engine that takes maps
// from the engine's pools - as before ("caller-data-modified"); the reference values handed to AddGlobal are
// walked the same way; (b) the second render of the same map renders what an engine configured the same way
// (same final globals) renders over a pristine copy of the data ("shared-data-render-differs"; a map that lost
// its keys, or gained a copy of a global that has been replaced since, shows here); (c) renders that share one
// map concurrently, each on an engine of its own configured alike, leave it alone and render what they render
// alone.  The product mode × globals × entry point × context runs on every seed (the remaining settings rotate
// through it and are crossed in full with the engine-level entry points), random combinations on top.

var c18HexNoise = regexp.MustCompile(`(?i)[0-9a-f]{4,}`)

func init() {
	c18Extra = append(c18Extra, c18Routes)
	c18ReplayExtra["routes"] = c18RoutesReplay
}

type c18AllowAll struct{}

func (c18AllowAll) IsFunctionAllowed(string) bool { return true }
func (c18AllowAll) IsFilterAllowed(string) bool   { return true }
func (c18AllowAll) IsTagAllowed(string) bool      { return true }

var (
	c18RouteModes   = []string{"default", "debug", "debug-quiet", "dev", "debug-on-off", "cache-off", "auto-reload"}
	c18RouteGlobals = []string{"none", "fresh", "shadowed", "both", "regrown", "late"}
	c18RouteAPIs    = []string{"Engine.Render", "Engine.RenderTo", "Load+Template.Render", "Load+Template.RenderTo", "ParseTemplate+Template.Render"}
	c18RouteCtxs    = []string{"small", "full", "empty", "nil"}
	c18RouteProvs   = []string{"string", "loader"}
)

// c18Setup: how the engine of a case is configured and called
type c18Setup struct {
	Mode    string `json:"mode"`
	Globals string `json:"globals"`
	API     string `json:"api"`
	Ctx     string `json:"ctx"`
	Strict  bool   `json:"strict_vars"`
	Sandbox bool   `json:"sandbox"`
	Prov    string `json:"provenance"`
}

func (s c18Setup) String() string {
	return fmt.Sprintf("mode=%s globals=%s api=%s ctx=%s strict=%v sandbox=%v templates-from=%s", s.Mode, s.Globals, s.API, s.Ctx, s.Strict, s.Sandbox, s.Prov)
}

const c18RouteTail = "|{{ gsite|default('-') }}|{{ glist|default([])|join(',') }}|{{ gmap|default({})|keys|sort|join(',') }}|{{ gn|default('-') }}|{{ gnew|default('-') }}" +
	"|{{ a|default('-') }}|{{ xs|default([])|join(',') }}|{{ n|default('-') }}|{{ m|default({})|keys|sort|join(',') }}"

var c18RouteAux = map[string]string{
	"inc":  c18Aux["inc"],
	"inc2": c18Aux["inc2"],
	"lib":  c18Aux["lib"],
	"base": "{% set hdr = 'H' %}<{% block head %}{{ hdr|default('h') }}{{ gsite|default('-') }}{% endblock %}|{% block body %}B{{ a|default('-') }}{% set a = 'base' %}{% endblock %}|{{ a|default('-') }}>",
	"ginc": "{{ gsite|default('-') }}{% set gsite = 'i' %}{% set gfresh = 1 %}{{ gsite }}{{ a|default('-') }}{{ glist|default([])|merge([5])|sort|join(',') }}",
}

// the templates of the dimension; %T marks where the tail that prints globals and context keys goes (default: the end)
var c18RouteProgs = []string{
	"{{ a|default('-') }}",
	"{% for v in xs|default([1, 2]) %}{{ v }}{% if not loop.last %},{% endif %}{% endfor %} for {{ pst.Name|default('?') }}",
	"{% set a = 'changed' %}{% set n = n|default(0) + 1 %}{% set fresh1 = 1 %}{{ a }}{{ n }}{{ fresh1 }}",
	"{% for a in xs|default([1]) %}{% set xs = [a] %}{{ loop.index }}{% endfor %}{{ xs|default([])|length }}",
	"{% include 'inc' %}",
	"{% include 'inc' with {'xs': [0], 'a': 'q', 'n': 1} %}",
	"{% include 'inc' with {'xs': xs|default([7]), 'a': a|default('z'), 'n': 1} only %}|{{ a|default('-') }}",
	"{% include 'inc2' with {'xs': xs|default([1, 2])|slice(0, 2), 'm': m.sub|default({})} %}",
	"{% import 'lib' as lib %}{{ lib.f(xs|default([2]), 'z', m|default({})) }}{{ lib.g(n|default(1)) }}",
	"{% from 'lib' import g as gsite %}{{ gsite(1) }}{% import 'lib' as glist %}{{ glist.g(2) }}",
	"{% extends 'base' %}{% block body %}{% set a = 'blk' %}{{ parent() }}{{ a }}{{ xs|default([])|sort|join(',') }}%T{% endblock %}",
	"{% set gsite = 'local' %}{% set glist = glist|default([])|merge([0]) %}{% set gmap = gmap|default({})|merge({'z': 1}) %}{{ gsite }}{{ glist|join(',') }}",
	"{% do xs|default([])|merge([1]) %}{{ m|default({})|merge({'q': 1})|keys|join(',') }}{{ xs|default([])|sort|join(',') }}{{ pst.Tags|default([])|reverse|join(',') }}{{ glist|default([])|sort|reverse|join(',') }}",
	"{% apply upper %}{% set a = 'ap' %}{{ a }}{{ ss|default([])|sort|join(',') }}{% endapply %}",
	"{% for k, v in m|default({}) %}{% set v = 1 %}{% set k = 'q' %}{{ loop.index }}{% endfor %}{% for g in glist|default([]) %}{% set g = 0 %}{{ loop.index }}{% endfor %}{% for k, g in gmap|default({}) %}{{ k }}{% endfor %}",
	"{% if t|default(false) %}{% set a = 'if' %}{% else %}{% set a = 'else' %}{% endif %}{{ a }}{% spaceless %}<i> {% set zz = 1 %} </i>{% endspaceless %}",
	"{% macro mm(q) %}{% set a = q %}{{ a }}{{ gsite|default('-') }}{% endmacro %}{{ mm('inner') }}{{ _self.mm(n|default(0)) }}{{ a|default('-') }}",
	"{% include 'ginc' %}|{% include 'ginc' with {'gsite': 'w'} %}|{% include 'ginc' with {} only %}",
	"{{ merge(glist|default([]), xs|default([]))|join(',') }}|{{ merge(gmap|default({}), m2|default({}))|keys|sort|join(',') }}|{{ glist|default([])|slice(0, 2)|merge([9])|join(',') }}",
}

func c18RouteProg(kind, src string) c18Prog {
	t := map[string]string{}
	for k, v := range c18RouteAux {
		t[k] = v
	}
	if strings.Contains(src, "%T") {
		src = strings.Replace(src, "%T", c18RouteTail, 1)
	} else {
		src += c18RouteTail
	}
	t["main"] = src
	return c18Prog{Kind: kind, Tpls: t}
}

// c18SmallContext: a handful of the standard context's keys (the cheap context of the dimension)
func c18SmallContext() map[string]interface{} {
	return map[string]interface{}{
		"xs": c18SpareIface([]interface{}{3, 1, 2}, 4),
		"y":  c18SpareIface([]interface{}{9, 8}, 2),
		"ss": c18SpareStr([]string{"pear", "apple", "fig"}, 3),
		"m": map[string]interface{}{"b": 2, "a": 1, "list": c18SpareIface([]interface{}{"z", "x", "y"}, 2),
			"sub": map[string]interface{}{"k": "v", "deep": c18SpareIface([]interface{}{1, 2}, 2)}},
		"m2":  map[string]interface{}{"c": 3, "a": 100},
		"pst": &c18Inner{Name: "ptr", Tags: c18SpareStr([]string{"u2", "u1"}, 2), Meta: map[string]interface{}{"k": "v"}, Nums: c18SpareInt([]int{9, 8, 7}, 2), Arr: [3]int{9, 7, 8}},
		"a":   "str",
		"n":   5,
		"t":   true,
		"nil": nil,
	}
}

func c18RouteContext(form string) map[string]interface{} {
	switch form {
	case "full":
		return c18Context()
	case "small":
		return c18SmallContext()
	case "empty":
		return map[string]interface{}{}
	}
	return nil
}

// c18RouteGlobalValues: the values handed to AddGlobal. stage 0: before the first render, stage 1: the calls made
// between the two renders. The list is ordered (AddGlobal calls are made in this order).
type c18Global struct {
	Name  string
	Value interface{}
}

func c18RouteGlobalValues(mode string, stage int) []c18Global {
	fresh := func() []c18Global {
		return []c18Global{{"gsite", "Acme"}, {"gn", 7}, {"glist", c18SpareIface([]interface{}{3, 1, 2}, 3)},
			{"gmap", map[string]interface{}{"k": "v", "l": c18SpareIface([]interface{}{2, 1}, 2)}}}
	}
	shadowed := func() []c18Global {
		return []c18Global{{"a", "GLOBAL-a"}, {"n", 1000}, {"xs", c18SpareIface([]interface{}{"gx"}, 2)}, {"m", map[string]interface{}{"gk": 1}}}
	}
	if stage == 0 {
		switch mode {
		case "fresh":
			return fresh()
		case "shadowed":
			return shadowed()
		case "both", "regrown":
			return append(fresh(), shadowed()...)
		}
		return nil
	}
	switch mode {
	case "regrown":
		return []c18Global{{"gsite", "Acme Corp"}, {"glist", c18SpareIface([]interface{}{9}, 1)}, {"gnew", "late"}, {"a", "GLOBAL-a2"}, {"gmap", map[string]interface{}{"k2": "v2"}}}
	case "late":
		return append(fresh(), shadowed()...)
	}
	return nil
}

// c18RouteEngineT: one engine of a case with the reference values it was given as globals
type c18RouteEngineT struct {
	eng     *twig.Engine
	s       c18Setup
	tpls    map[string]string
	globals map[string]interface{} // name -> every value ever handed to AddGlobal under it (a list)
}

func (x *c18RouteEngineT) addGlobals(stage int) {
	for _, g := range c18RouteGlobalValues(x.s.Globals, stage) {
		x.eng.AddGlobal(g.Name, g.Value)
		l, _ := x.globals[g.Name].([]interface{})
		x.globals[g.Name] = append(l, g.Value)
	}
}

// c18RouteQuiet: the package-level debugger of twig back to its initial level (SetDebug(true) raises it for the
// whole process), writing nowhere
func c18RouteQuiet() { twig.SetDebugLevel(twig.DebugOff) }

func c18RouteBuild(s c18Setup, tpls map[string]string) (*c18RouteEngineT, error) {
	x := &c18RouteEngineT{eng: twig.New(), s: s, tpls: tpls, globals: map[string]interface{}{}}
	eng := x.eng
	switch s.Mode {
	case "debug":
		eng.SetDebug(true)
	case "debug-quiet":
		eng.SetDebug(true)
		c18RouteQuiet()
	case "debug-on-off":
		eng.SetDebug(true)
		eng.SetDebug(false)
	case "dev":
		eng.SetDevelopmentMode(true)
	case "cache-off":
		eng.SetCache(false)
	case "auto-reload":
		eng.SetAutoReload(true)
	}
	if s.Strict {
		eng.SetStrictVars(true)
	}
	if s.Sandbox {
		eng.EnableSandbox(c18AllowAll{})
	}
	x.addGlobals(0)
	if s.Prov == "loader" {
		eng.RegisterLoader(twig.NewArrayLoader(tpls))
		return x, nil
	}
	for _, n := range sortedKeys(tpls) {
		if err := eng.RegisterString(n, tpls[n]); err != nil {
			return x, fmt.Errorf("parsing error: register %s: %w", n, err)
		}
	}
	return x, nil
}

func (x *c18RouteEngineT) render(ctx map[string]interface{}) RenderResult {
	return guarded(func() (string, error) {
		switch x.s.API {
		case "Engine.RenderTo":
			var sb strings.Builder
			if err := x.eng.RenderTo(&sb, "main", ctx); err != nil {
				return "", err
			}
			return sb.String(), nil
		case "Load+Template.Render":
			t, err := x.eng.Load("main")
			if err != nil {
				return "", err
			}
			return t.Render(ctx)
		case "Load+Template.RenderTo":
			t, err := x.eng.Load("main")
			if err != nil {
				return "", err
			}
			var sb strings.Builder
			if err := t.RenderTo(&sb, ctx); err != nil {
				return "", err
			}
			return sb.String(), nil
		case "ParseTemplate+Template.Render":
			t, err := x.eng.ParseTemplate(x.tpls["main"])
			if err != nil {
				return "", fmt.Errorf("parsing error: %w", err)
			}
			return t.Render(ctx)
		}
		return x.eng.Render("main", ctx)
	})
}

// the unrelated render made between the checks: a default engine that takes variable maps from the pools and writes
// set / loop / include variables into them
var (
	c18ScribbleOnce sync.Once
	c18ScribbleEng  *twig.Engine
)

func c18Scribble() {
	c18ScribbleOnce.Do(func() {
		c18ScribbleEng, _ = newEngine(map[string]string{
			"main": "{% set s1 = 1 %}{% set xs = [1, 2] %}{% set a = 'scribble' %}{% for i in [1, 2, 3] %}{% set s2 = i %}{% endfor %}{% include 'si' with {'q': 1} only %}{% include 'si' %}{{ s1 }}{{ w }}",
			"si":   "{% set q2 = q|default(0) %}{% set a = 'scribble-inc' %}{{ q2 }}"})
	})
	for i := 0; i < 2; i++ {
		guarded(func() (string, error) {
			return c18ScribbleEng.Render("main", map[string]interface{}{"w": i, "a": "own"})
		})
	}
}

// c18RouteCase runs one case; it returns the first render.
func c18RouteCase(e *Env, s c18Setup, p c18Prog) RenderResult {
	r := e.Rep
	defer c18RouteQuiet()
	replay := func(extra map[string]any) map[string]any {
		m := map[string]any{"kind": "routes", "setup": s, "templates": p.Tpls,
			"context": "c18RouteContext(" + s.Ctx + ") in harness/c18_routes.go (values below)", "context_values": c18Snap(c18RouteContext(s.Ctx), false),
			"globals_before_first_render": fmt.Sprint(c18RouteGlobalValues(s.Globals, 0)), "globals_added_between_renders": fmt.Sprint(c18RouteGlobalValues(s.Globals, 1))}
		for k, v := range extra {
			m[k] = v
		}
		return m
	}
	x, err := c18RouteBuild(s, p.Tpls)
	canon := fmt.Sprintf("routes:%s:%s", s, p.Tpls["main"])
	if err != nil {
		r.Seen(canon, false)
		r.Hit("routes:parse-error")
		res := RenderResult{Err: err}
		res.Class = classify(err)
		return res
	}
	data := c18RouteContext(s.Ctx)
	before, h0 := c18Snap(data, true), c18Hash(data)
	gBefore, g0 := c18Snap(x.globals, true), c18Hash(x.globals)
	modified := false
	check := func(when string, out RenderResult) {
		if modified {
			return
		}
		if c18Hash(data) != h0 {
			modified = true
			d := c18Diff(before, c18Snap(data, true))
			r.Violate(Violation{Key: "caller-data-modified",
				What:   fmt.Sprintf("%s on an engine with %s changes the caller's context map (%s): %s", s.API, s, when, truncate(c18MaskAddr(strings.Join(d, "; ")), 160)),
				Broken: "C18_frame / C18_sites_ok no longer describe the code (implementation-only oracle: deep walk of the context before/after, every engine setting and entry point)",
				Replay: replay(map[string]any{"when": when, "diff": d, "output": truncate(out.Out, 300), "class": out.Class})})
		}
		if c18Hash(x.globals) != g0 {
			modified = true
			d := c18Diff(gBefore, c18Snap(x.globals, true))
			r.Violate(Violation{Key: "caller-data-modified",
				What:   fmt.Sprintf("%s on an engine with %s changes a value the caller handed to AddGlobal (%s): %s", s.API, s, when, truncate(c18MaskAddr(strings.Join(d, "; ")), 160)),
				Broken: "C18_frame (implementation-only oracle: deep walk of the values given as globals before/after)",
				Replay: replay(map[string]any{"when": when, "diff": d, "output": truncate(out.Out, 300), "class": out.Class, "walked": "the values handed to AddGlobal, by name, in call order"})})
		}
	}
	first := x.render(data)
	check("after the first render", first)
	c18Scribble()
	check("after the first render and a later, unrelated render of other data on another engine", first)
	r.Seen(canon, first.Class == "" && first.Out != "")
	if first.Class != "" {
		r.Hit("routes:" + first.Class)
	} else {
		r.Hit("routes:ok")
	}
	if first.Class == "panic" {
		r.Hit("panic")
	}
	// the globals change; the data does not
	x.addGlobals(1)
	g0, gBefore = c18Hash(x.globals), c18Snap(x.globals, true)
	second := x.render(data)
	check("after the second render of the same map", second)
	// what the second render has to be: the same configuration (final globals), pristine data
	y, err := c18RouteBuild(s, p.Tpls)
	if err != nil {
		return first
	}
	y.addGlobals(1)
	want := y.render(c18RouteContext(s.Ctx))
	if strings.Contains(p.Tpls["main"], "random(") {
		return first
	}
	if second.Class == want.Class && c18MaskAddr(second.Out) != c18MaskAddr(want.Out) && c18HexNoise.ReplaceAllString(second.Out, "H") == c18HexNoise.ReplaceAllString(want.Out, "H") {
		// the two outputs differ only inside runs of hexadecimal digits: a printed address (C03's recorded finding) that
		// a filter of the template cut, reversed or re-cased beyond what c18MaskAddr recognises — two data instances
		// have two addresses; not a C18 matter
		r.Hit("routes-second-render-differs-in-printed-address-only")
		return first
	}
	if c18MaskAddr(second.Out) != c18MaskAddr(want.Out) || second.Class != want.Class {
		r.Violate(Violation{Key: "shared-data-render-differs",
			What: fmt.Sprintf("the second %s of one context map on an engine with %s renders %q (class %q); the same engine set-up over a pristine copy of the data renders %q (class %q)",
				s.API, s, truncate(c18MaskAddr(second.Out), 80), second.Class, truncate(c18MaskAddr(want.Out), 80), want.Class),
			Broken: "C18: two renders that share context data, one after the other, cannot influence each other (implementation-only oracle: engine configured alike, pristine data)",
			Replay: replay(map[string]any{"first": truncate(first.Out, 300), "second": truncate(second.Out, 300), "second_on_pristine_data": truncate(want.Out, 300),
				"class_first": first.Class, "class_second": second.Class, "class_pristine": want.Class})})
	}
	return first
}

// c18RouteConcurrent: k renders share one map, each on an engine of its own configured as s says.
func c18RouteConcurrent(e *Env, s c18Setup, progs []c18Prog) {
	r := e.Rep
	defer c18RouteQuiet()
	shared := c18RouteContext(s.Ctx)
	before, h0 := c18Snap(shared, true), c18Hash(shared)
	engs := make([]*c18RouteEngineT, len(progs))
	for i, p := range progs {
		x, err := c18RouteBuild(s, p.Tpls)
		if err != nil {
			return
		}
		engs[i] = x
	}
	outs := make([]RenderResult, len(progs))
	var wg sync.WaitGroup
	for i := range progs {
		wg.Add(1)
		go func(i int) {
			defer wg.Done()
			outs[i] = engs[i].render(shared)
		}(i)
	}
	wg.Wait()
	r.Hit("routes:concurrent")
	var srcs []string
	for _, p := range progs {
		srcs = append(srcs, p.Tpls["main"])
	}
	r.Seen(fmt.Sprintf("routes-conc:%s:%s", s, strings.Join(srcs, "\x00")), true)
	if c18Hash(shared) != h0 {
		d := c18Diff(before, c18Snap(shared, true))
		r.Violate(Violation{Key: "caller-data-modified",
			What:   fmt.Sprintf("concurrent %s calls sharing one context map on engines with %s change it: %s", s.API, s, truncate(c18MaskAddr(strings.Join(d, "; ")), 160)),
			Broken: "C18_frame (implementation-only oracle: deep walk around concurrent renders that share data)",
			Replay: map[string]any{"kind": "routes", "setup": s, "concurrent": true, "templates": progs[0].Tpls, "all_mains": srcs, "diff": d}})
		return
	}
	for i, p := range progs {
		y, err := c18RouteBuild(s, p.Tpls)
		if err != nil {
			continue
		}
		want := y.render(c18RouteContext(s.Ctx))
		if c18MaskAddr(outs[i].Out) != c18MaskAddr(want.Out) || outs[i].Class != want.Class {
			r.Violate(Violation{Key: "shared-data-render-differs",
				What:   fmt.Sprintf("a %s sharing its context map with concurrent renders (engines with %s) differs from the same render alone", s.API, s),
				Broken: "C18: two renders that share context data concurrently cannot influence each other (implementation-only oracle)",
				Replay: map[string]any{"kind": "routes", "setup": s, "concurrent": true, "templates": p.Tpls, "all_mains": srcs,
					"alone": truncate(want.Out, 300), "shared": truncate(outs[i].Out, 300), "class_alone": want.Class, "class_shared": outs[i].Class}})
		}
	}
}

func c18RouteRandomSetup(rng *rand.Rand) c18Setup {
	return c18Setup{Mode: pick(rng, c18RouteModes), Globals: pick(rng, c18RouteGlobals), API: pick(rng, c18RouteAPIs), Ctx: pick(rng, c18RouteCtxs),
		Strict: rng.Intn(2) == 0, Sandbox: rng.Intn(3) == 0, Prov: pick(rng, c18RouteProvs)}
}

// c18Routes: part of runC18 (see the head of this file).
func c18Routes(e *Env) {
	r := e.Rep
	r.Rule += "; (8) engine settings × entry points: 7 modes (debug / development mode / cache / auto-reload) × 6 global set-ups (none, unshadowed, shadowed, replaced or added between renders) × " +
		"5 entry points (Engine.Render / RenderTo, Load + Template.Render / RenderTo, ParseTemplate) × 4 contexts (small, standard, empty, nil) in full, crossed with strict variables, sandbox and " +
		"loader-provided templates; every case renders one map twice on one engine: deep walk of the map and of the values given as globals after each render and after an unrelated render, " +
		"second render against the same set-up over pristine data; random set-ups × random programs; concurrent renders sharing a map"
	t0, ev0 := time.Now(), r.Evaluations
	twig.SetDebugWriter(io.Discard) // SetDebug(true) makes the package-level logger talk
	defer func() {
		c18RouteQuiet()
		twig.SetDebugWriter(os.Stderr)
	}()
	rot := e.Rng.Intn(1000)
	var corpus []c18Prog
	for _, src := range c18RouteProgs {
		corpus = append(corpus, c18RouteProg("routes", src))
	}
	// the corpus has to parse and render: a template that does not exercises nothing
	for _, p := range corpus {
		res := c18RouteCase(e, c18Setup{Mode: "default", Globals: "both", API: "Engine.Render", Ctx: "small", Prov: "string"}, p)
		if res.Class != "" {
			r.Violate(Violation{Key: "harness-template-does-not-parse", What: fmt.Sprintf("the fixed C18 template %q does not render on a default engine: %s %v", truncate(p.Tpls["main"], 120), res.Class, res.Err), Broken: "C18 harness corpus",
				Replay: map[string]any{"kind": "src", "src": p.Tpls["main"], "err": fmt.Sprint(res.Err)}})
		}
		if r.Full() {
			return
		}
	}
	full := make([]c18Prog, 0, len(corpus)+len(c18Fixed))
	full = append(full, corpus...)
	for _, src := range c18Fixed {
		if !strings.Contains(src, "random(") {
			full = append(full, c18RouteProg("routes", src))
		}
	}
	progFor := func(ctx string, i int) c18Prog {
		if ctx == "full" {
			return full[(i+rot)%len(full)]
		}
		return corpus[(i+rot)%len(corpus)]
	}
	// (a) the full product mode × globals × entry point × context; strict / sandbox / provenance rotate
	i := 0
	for _, mode := range c18RouteModes {
		for _, gl := range c18RouteGlobals {
			for _, api := range c18RouteAPIs {
				for _, cx := range c18RouteCtxs {
					k := i + rot
					s := c18Setup{Mode: mode, Globals: gl, API: api, Ctx: cx, Strict: k%2 == 1, Sandbox: (k/2)%3 == 2, Prov: c18RouteProvs[(k/3)%2]}
					c18RouteCase(e, s, progFor(cx, i))
					i++
					if r.Full() {
						return
					}
				}
			}
		}
	}
	// (b) the engine-level entry points: every mode × globals with every combination of the remaining settings
	// and every template of the corpus once per (mode, globals) pair
	i = 0
	for _, mode := range c18RouteModes {
		for _, gl := range c18RouteGlobals {
			for _, api := range c18RouteAPIs[:2] {
				for bits := 0; bits < 8; bits++ {
					s := c18Setup{Mode: mode, Globals: gl, API: api, Ctx: "small", Strict: bits&1 != 0, Sandbox: bits&2 != 0, Prov: c18RouteProvs[bits>>2]}
					c18RouteCase(e, s, progFor("small", i))
					i++
					if r.Full() {
						return
					}
				}
			}
		}
	}
	// (c) every template of the corpus under every mode and under every global set-up (entry points rotate)
	for pi, p := range corpus {
		for mi, mode := range c18RouteModes {
			s := c18Setup{Mode: mode, Globals: c18RouteGlobals[1+(pi+mi+rot)%(len(c18RouteGlobals)-1)], API: c18RouteAPIs[(pi+mi+rot)%2], Ctx: "small", Prov: "string"}
			c18RouteCase(e, s, p)
		}
		for gi, gl := range c18RouteGlobals {
			s := c18Setup{Mode: c18RouteModes[(pi+gi+rot)%len(c18RouteModes)], Globals: gl, API: c18RouteAPIs[(pi+gi+rot)%len(c18RouteAPIs)], Ctx: "small", Prov: c18RouteProvs[(pi+gi)%2]}
			c18RouteCase(e, s, p)
		}
		if r.Full() {
			return
		}
	}
	r.Sample(map[string]any{"kind": "routes", "setup": c18Setup{Mode: "dev", Globals: "regrown", API: "Engine.RenderTo", Ctx: "small", Prov: "string"}, "template": corpus[2].Tpls["main"]})
	// (d) random set-ups × random programs
	var ok []c18Prog
	for n := e.N(300, 20000); n > 0 && !r.Full(); n-- {
		s := c18RouteRandomSetup(e.Rng)
		var p c18Prog
		switch {
		case s.Ctx == "full" && e.Rng.Intn(2) == 0:
			p = c18RouteProg("routes-random", c18RandomProg(e.Rng))
		case e.Rng.Intn(3) == 0:
			p = c18RouteProg("routes-random", pick(e.Rng, c18RouteProgs[:10])+pick(e.Rng, c18RouteProgs[11:]))
		default:
			p = pick(e.Rng, full)
		}
		if res := c18RouteCase(e, s, p); res.Class == "" && len(ok) < 200 {
			ok = append(ok, p)
		}
	}
	// (e) concurrent renders sharing one map (not once something above fired: an engine that writes to the caller's map
	// from two goroutines takes the process down, and the report with it)
	if len(r.Violations) == 0 && len(ok) > 1 {
		for round := e.N(12, 300); round > 0 && !r.Full(); round-- {
			s := c18RouteRandomSetup(e.Rng)
			s.Mode = pick(e.Rng, []string{"default", "dev", "cache-off", "auto-reload"}) // SetDebug writes the package-level debugger: not from engines built side by side
			s.Ctx = pick(e.Rng, []string{"small", "full"})
			k := 2 + e.Rng.Intn(4)
			seq := make([]c18Prog, k)
			for j := range seq {
				seq[j] = pick(e.Rng, ok)
			}
			c18RouteConcurrent(e, s, seq)
		}
	}
	r.Note(fmt.Sprintf("C18 routes: %d cases in %.1fs", r.Evaluations-ev0, time.Since(t0).Seconds()))
}

func c18RoutesReplay(e *Env, _ int, raw json.RawMessage) error {
	var f struct {
		Case struct {
			Setup      c18Setup `json:"setup"`
			Concurrent bool     `json:"concurrent"`
			AllMains   []string `json:"all_mains"`
		} `json:"case"`
	}
	b, err := os.ReadFile(e.Replay)
	if err != nil {
		return err
	}
	if err := json.Unmarshal(b, &f); err != nil {
		return err
	}
	var tpls map[string]string
	if err := json.Unmarshal(raw, &tpls); err != nil {
		return err
	}
	twig.SetDebugWriter(io.Discard)
	defer twig.SetDebugWriter(os.Stderr)
	if f.Case.Concurrent {
		var progs []c18Prog
		for _, src := range f.Case.AllMains {
			t := map[string]string{}
			for k, v := range tpls {
				t[k] = v
			}
			t["main"] = src
			progs = append(progs, c18Prog{Kind: "replay", Tpls: t})
		}
		for round := 0; round < 20 && len(e.Rep.Violations) == 0; round++ {
			c18RouteConcurrent(e, f.Case.Setup, progs)
		}
		fmt.Printf("replay routes (concurrent, %s): reproduced: %v\n", f.Case.Setup, len(e.Rep.Violations) > 0)
		return nil
	}
	res := c18RouteCase(e, f.Case.Setup, c18Prog{Kind: "replay", Tpls: tpls})
	fmt.Printf("replay routes (%s): output %q (class %q); reproduced: %v\n", f.Case.Setup, truncate(res.Out, 300), res.Class, len(e.Rep.Violations) > 0)
	return nil
}
