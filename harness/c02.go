package main

import (
	"bytes"
	"encoding/json"
	"errors"
	"fmt"
	"math/rand"
	"os"
	"os/exec"
	"path/filepath"
	"runtime"
	"runtime/debug"
	"sort"
	"strconv"
	"strings"
	"sync"
	"time"

	"github.com/semihalev/twig"
)

// C02 — concurrent use of one configured engine is safe and equals serial use.  (PARTIAL: see
// TwigProofs/C02.lean.  Schedules cannot be imposed on Go, so this side is statistical.)
//
// Implementation-only oracle (the property's own observable statement):
//   one shared engine, 8–64 goroutines, Render / RenderTo / Load / ParseTemplate / RegisterString of
//   distinct fresh names; template sets with includes, extends, imports, macros and relative names in
//   nested directories through a temp-dir FileSystemLoader and an ArrayLoader; cache on / cache off /
//   auto-reload.  Every result is compared with the output computed serially beforehand on a twin
//   engine; every context carries a per-goroutine marker, so material from another call is visible.
//   The stress runs in a child process of this binary (a Go `fatal error` such as "concurrent map
//   writes" cannot be recovered in-process), and — when VERIF_RACE_BIN names a `-race` build of the same
//   harness — once more in that binary; "WARNING: DATA RACE" or a non-zero exit is a violation.
// Correspondence with the model (driver op conc_sem): the deterministic replay of the
//   Load / RegisterString lost update (a user Loader that blocks inside Load gives the schedule), with
//   cache on and cache off, compared value by value with the model's prediction.

func init() {
	register("C02", runC02)
	children["c02stress"] = c02StressChild
}

// ---- template sets ---------------------------------------------------------------------------------

type c02Set struct {
	fs        map[string]string // files under the temp dir (FileSystemLoader), relative path -> source
	mem       map[string]string // ArrayLoader
	names     []string          // top-level templates to render (sorted)
	parseSrcs []string          // sources for ParseTemplate / RegisterString
}

var c02Words = []string{"alpha", "beta", "gamma", "delta", "omega", "<b>", "a&b", "x y", "üñí", "0", "-", "q\"q"}

func c02Filler(r *rand.Rand, n int) string {
	var sb strings.Builder
	for sb.Len() < n {
		sb.WriteString(c02Words[r.Intn(len(c02Words))])
		sb.WriteByte(' ')
	}
	return sb.String()
}

// c02MakeSet builds one template set. Relative names (./x, ../y) are written in top-level templates
// only (the known residual — a relative name inside an *included* template of another directory
// resolves against the directory of the template the render call started from — is out of scope here).
func c02MakeSet(r *rand.Rand) *c02Set {
	s := &c02Set{fs: map[string]string{}, mem: map[string]string{}}
	pages := 3 + r.Intn(4)
	big := ""
	if r.Intn(2) == 0 {
		big = "{# " + strings.Repeat("pad ", 1100) + "#}" // pushes a template over the 4096-byte tokenizer switch
	}
	s.fs["base.twig"] = "<html>{% block title %}T{% endblock %}|{% block body %}B{% endblock %}|" + c02Filler(r, 20) + "</html>"
	s.fs["shared/footer.twig"] = "<f>{{ m|upper }}/" + c02Filler(r, 10) + "</f>"
	s.fs["shared/items.twig"] = "{% for x in items %}[{{ loop.index }}:{{ x }}]{% endfor %}"
	s.fs["macros/forms.twig"] = "{% macro field(name, v) %}<{{ name }}={{ v }}>{% endmacro %}{% macro twice(v) %}{{ v }}{{ v }}{% endmacro %}"
	s.fs["a/up.twig"] = "(up:{{ m }}:" + c02Filler(r, 8) + ")"
	for i := 0; i < pages; i++ {
		p := strconv.Itoa(i)
		s.fs["pages/part"+p+".twig"] = "[part" + p + ":{{ m }}:" + c02Filler(r, 12) + "]"
		s.fs["pages/p"+p+".twig"] = "{% extends \"../base.twig\" %}{% block title %}P" + p + "-{{ m }}{% endblock %}" +
			"{% block body %}{% include \"./part" + p + ".twig\" %}{% include \"../shared/footer.twig\" %}" + c02Filler(r, 6) + "{% endblock %}"
		s.names = append(s.names, "pages/p"+p+".twig")
		s.fs["pages/form"+p+".twig"] = "{% import \"../macros/forms.twig\" as f %}{{ f.field(\"k" + p + "\", m) }}{% include \"../shared/items.twig\" %}" + big
		s.names = append(s.names, "pages/form"+p+".twig")
		s.fs["a/b/c/deep"+p+".twig"] = "{% include \"../../up.twig\" %}deep" + p + "{% if n > 3 %}+{{ n }}{% else %}-{{ m }}{% endif %}{% include \"shared/footer.twig\" %}"
		s.names = append(s.names, "a/b/c/deep"+p+".twig")
		s.fs["pages/from"+p+".twig"] = "{% from \"../macros/forms.twig\" import twice %}{{ twice(m) }}:" + p
		s.names = append(s.names, "pages/from"+p+".twig")
	}
	// in-memory templates (ArrayLoader), absolute and relative names
	s.mem["mem/layout"] = "{{ m }}<{% block c %}c{% endblock %}>"
	s.mem["mem/leaf"] = "leaf({{ m }})" + c02Filler(r, 6)
	for i := 0; i < 3; i++ {
		p := strconv.Itoa(i)
		s.mem["mem/x"+p] = "{% extends \"mem/layout\" %}{% block c %}x" + p + ":{% include \"./leaf\" %}:{% include \"shared/footer.twig\" %}{% endblock %}"
		s.names = append(s.names, "mem/x"+p)
	}
	s.names = append(s.names, "shared/footer.twig", "mem/leaf")
	sort.Strings(s.names)
	s.parseSrcs = []string{
		"P:{{ m }}:{% for x in items %}{{ x }};{% endfor %}",
		"{% if n > 2 %}big{% else %}small{% endif %}-{{ m|upper }}" + c02Filler(r, 10),
		"{% set q = m ~ '!' %}{{ q }}{% include \"shared/footer.twig\" %}",
		"{% include \"mem/leaf\" %}|{{ m }}" + big,
	}
	return s
}

func (s *c02Set) writeFS(dir string) error {
	for p, src := range s.fs {
		full := filepath.Join(dir, filepath.FromSlash(p))
		if err := os.MkdirAll(filepath.Dir(full), 0o755); err != nil {
			return err
		}
		if err := os.WriteFile(full, []byte(src), 0o644); err != nil {
			return err
		}
	}
	return nil
}

var c02Configs = []string{"cache-on", "cache-off", "auto-reload"}

func c02Engine(dir string, set *c02Set, config string) *twig.Engine {
	e := twig.New()
	fsl := twig.NewFileSystemLoader([]string{dir})
	fsl.SetSuffix("") // names carry their extension
	e.RegisterLoader(fsl)
	mem := map[string]string{}
	for k, v := range set.mem {
		mem[k] = v
	}
	e.RegisterLoader(twig.NewArrayLoader(mem))
	switch config {
	case "cache-off":
		e.SetCache(false)
	case "auto-reload":
		e.SetAutoReload(true)
	}
	return e
}

func c02Marker(g int) string { return "«g" + strconv.Itoa(g) + "»" }

func c02Ctx(g int) map[string]interface{} {
	m := c02Marker(g)
	return map[string]interface{}{"m": m, "n": g % 7, "items": []interface{}{m + "-0", m + "-1", g}}
}

// ---- the stress ------------------------------------------------------------------------------------

type c02Violation struct {
	Key    string         `json:"key"`
	What   string         `json:"what"`
	Replay map[string]any `json:"replay"`
}

type c02Result struct {
	Evals      int            `json:"evals"`
	Distinct   []string       `json:"distinct"`
	Hits       map[string]int `json:"hits"`
	Skips      map[string]int `json:"skips"`
	Violations []c02Violation `json:"violations"`
	Samples    []any          `json:"samples"`
	Notes      []string       `json:"notes"`
}

type c02Job struct {
	config     string
	goroutines int
	calls      int
	regression string // "" = random mix; otherwise a focused regression workload
}

type c02Collector struct {
	mu  sync.Mutex
	res *c02Result
	seq map[string]struct{}
}

func (c *c02Collector) hit(k string) { c.mu.Lock(); c.res.Hits[k]++; c.mu.Unlock() }
func (c *c02Collector) seen(canon string) {
	c.mu.Lock()
	c.res.Evals++
	if _, ok := c.seq[canon]; !ok && len(c.seq) < 200000 {
		c.seq[canon] = struct{}{}
	}
	c.mu.Unlock()
}
func (c *c02Collector) violate(v c02Violation) {
	c.mu.Lock()
	defer c.mu.Unlock()
	for _, o := range c.res.Violations {
		if o.Key == v.Key {
			return // one witness per failure class
		}
	}
	if len(c.res.Violations) < 8 {
		c.res.Violations = append(c.res.Violations, v)
	}
}
func (c *c02Collector) failed() bool {
	c.mu.Lock()
	defer c.mu.Unlock()
	return len(c.res.Violations) >= 4
}

// c02Expected renders every (template, goroutine) pair serially on a twin engine.
func c02Expected(dir string, set *c02Set, config string, goroutines int, col *c02Collector) (exp map[string][]string, parseExp [][]string) {
	twin := c02Engine(dir, set, config)
	exp = map[string][]string{}
	for _, n := range set.names {
		outs := make([]string, goroutines)
		ok := true
		for g := 0; g < goroutines; g++ {
			o1, err1 := twin.Render(n, c02Ctx(g))
			o2, err2 := twin.Render(n, c02Ctx(g))
			if err1 != nil || err2 != nil || o1 != o2 {
				ok = false // not a usable reference (serial use itself fails or is unstable): other properties
				col.res.Skips["serial-reference-unusable:"+n]++
				break
			}
			outs[g] = o1
		}
		if ok {
			exp[n] = outs
		}
	}
	parseExp = make([][]string, len(set.parseSrcs))
	for i, src := range set.parseSrcs {
		t, err := twin.ParseTemplate(src)
		if err != nil {
			col.res.Skips["serial-parse-fails"]++
			continue
		}
		outs := make([]string, goroutines)
		for g := 0; g < goroutines; g++ {
			o, err := t.Render(c02Ctx(g))
			if err != nil {
				outs = nil
				col.res.Skips["serial-parsed-render-fails"]++
				break
			}
			outs[g] = o
		}
		parseExp[i] = outs
	}
	return
}

// c02RunJob runs one shared engine under `goroutines` goroutines.
func c02RunJob(seed int64, job c02Job, col *c02Collector) {
	rng := rand.New(rand.NewSource(seed))
	set := c02MakeSet(rng)
	dir, err := os.MkdirTemp("", "verif-c02-")
	if err != nil {
		col.res.Notes = append(col.res.Notes, "mkdtemp: "+err.Error())
		return
	}
	defer os.RemoveAll(dir)
	if err := set.writeFS(dir); err != nil {
		col.res.Notes = append(col.res.Notes, "write templates: "+err.Error())
		return
	}
	exp, parseExp := c02Expected(dir, set, job.config, job.goroutines, col)
	var names []string
	for _, n := range set.names {
		if exp[n] != nil {
			names = append(names, n)
		}
	}
	if len(names) == 0 {
		col.res.Notes = append(col.res.Notes, "no usable template in set")
		return
	}
	if len(col.res.Samples) < 3 {
		col.res.Samples = append(col.res.Samples, map[string]any{"config": job.config, "goroutines": job.goroutines,
			"template": names[0], "source": truncate(set.fs[names[0]]+set.mem[names[0]], 300), "expected_g0": truncate(exp[names[0]][0], 300)})
	}
	eng := c02Engine(dir, set, job.config) // cold: first loads happen concurrently
	base := map[string]any{"seed": seed, "config": job.config, "goroutines": job.goroutines, "calls": job.calls,
		"regression": job.regression, "gomaxprocs": runtime.GOMAXPROCS(0)}
	mk := func(extra map[string]any) map[string]any {
		m := map[string]any{}
		for k, v := range base {
			m[k] = v
		}
		for k, v := range extra {
			m[k] = v
		}
		return m
	}
	check := func(kind, name string, g int, got string, err error, want string) {
		nontrivial := want != "" && strings.Contains(want, c02Marker(g))
		if nontrivial {
			col.seen(job.config + "|" + kind + "|" + name + "|" + strconv.Itoa(g))
		} else {
			col.mu.Lock()
			col.res.Evals++
			col.mu.Unlock()
		}
		col.hit("call:" + kind)
		if err != nil {
			col.violate(c02Violation{Key: "error-differs", What: fmt.Sprintf("%s(%q) fails under concurrency (%v) but succeeds serially", kind, name, truncate(err.Error(), 200)),
				Replay: mk(map[string]any{"call": kind, "template": name, "goroutine": g, "error": err.Error(), "expected_hex": hx(want)})})
			return
		}
		if got == want {
			return
		}
		key := "output-differs"
		for o := 0; o < job.goroutines; o++ {
			if o != g && strings.Contains(got, c02Marker(o)) {
				key = "cross-talk"
			}
		}
		col.violate(c02Violation{Key: key, What: fmt.Sprintf("%s(%q) by goroutine %d returned %q, serially %q", kind, name, g, truncate(got, 120), truncate(want, 120)),
			Replay: mk(map[string]any{"call": kind, "template": name, "goroutine": g, "got_hex": hx(got), "expected_hex": hx(want),
				"source": set.fs[name] + set.mem[name]})})
	}
	var wg sync.WaitGroup
	start := make(chan struct{})
	seeds := make([]int64, job.goroutines)
	for g := range seeds {
		seeds[g] = rng.Int63()
	}
	for g := 0; g < job.goroutines; g++ {
		wg.Add(1)
		go func(g int) {
			defer wg.Done()
			r := rand.New(rand.NewSource(seeds[g]))
			ctx := c02Ctx(g)
			registered := 0
			<-start
			for i := 0; i < job.calls && !col.failed(); i++ {
				func() {
					defer func() {
						if p := recover(); p != nil {
							col.violate(c02Violation{Key: "panic", What: fmt.Sprintf("panic under concurrency: %v", p),
								Replay: mk(map[string]any{"goroutine": g, "iteration": i, "panic": fmt.Sprint(p), "stack": truncate(string(debug.Stack()), 2000)})})
						}
					}()
					op := r.Intn(10)
					switch job.regression {
					case "fs-first-load": // pinned: fatal error concurrent map writes in FileSystemLoader
						op = 2
					case "relative": // pinned: ./x resolved against another goroutine's template
						op = 0
					case "parse-handoff": // pinned: tokenizer returned to the pool before its tokens were read
						op = 7
					}
					name := names[r.Intn(len(names))]
					if job.regression == "relative" {
						// only templates that use ./ and ../ names, from different directories
						for k := 0; k < 20 && !(strings.HasPrefix(name, "pages/p") || strings.HasPrefix(name, "a/b/c/") || strings.HasPrefix(name, "mem/x")); k++ {
							name = names[r.Intn(len(names))]
						}
					}
					switch {
					case op <= 1:
						out, err := eng.Render(name, ctx)
						check("Render", name, g, out, err, exp[name][g])
					case op == 2 || op == 3:
						var buf bytes.Buffer
						err := eng.RenderTo(&buf, name, ctx)
						check("RenderTo", name, g, buf.String(), err, exp[name][g])
					case op == 4 || op == 5:
						t, err := eng.Load(name)
						out := ""
						if err == nil {
							out, err = t.Render(ctx)
						}
						check("Load", name, g, out, err, exp[name][g])
					case op == 6 || op == 7:
						k := r.Intn(len(set.parseSrcs))
						if parseExp[k] == nil {
							return
						}
						t, err := eng.ParseTemplate(set.parseSrcs[k])
						out := ""
						if err == nil {
							out, err = t.Render(ctx)
						}
						check("ParseTemplate", "src#"+strconv.Itoa(k), g, out, err, parseExp[k][g])
					default:
						if registered >= 400 {
							out, err := eng.Render(name, ctx)
							check("Render", name, g, out, err, exp[name][g])
							return
						}
						registered++
						fresh := fmt.Sprintf("reg/g%d/n%d", g, registered)
						tag := fmt.Sprintf("R%d.%d:", g, registered)
						src := tag + "{{ m }}"
						want := tag + c02Marker(g)
						if r.Intn(2) == 0 && exp["shared/footer.twig"] != nil {
							src += "{% include \"shared/footer.twig\" %}"
							want += exp["shared/footer.twig"][g]
						}
						if err := eng.RegisterString(fresh, src); err != nil {
							check("RegisterString", fresh, g, "", err, want)
							return
						}
						out, err := eng.Render(fresh, ctx)
						check("RegisterString", fresh, g, out, err, want)
					}
				}()
			}
		}(g)
	}
	close(start)
	wg.Wait()
	col.hit("job:" + job.config)
	if job.regression != "" {
		col.hit("regression:" + job.regression)
	}
}

func c02Jobs(tier string, rng *rand.Rand) []c02Job {
	var jobs []c02Job
	// regression corpus first (the pinned-tree defects of DESIGN §1.2 for C02)
	jobs = append(jobs,
		c02Job{"cache-on", 16, 40, "fs-first-load"},
		c02Job{"cache-off", 8, 60, "fs-first-load"},
		c02Job{"cache-on", 8, 150, "relative"},
		c02Job{"auto-reload", 8, 100, "relative"},
		c02Job{"cache-on", 8, 150, "parse-handoff"})
	if tier == "thorough" {
		for seedIdx := 0; seedIdx < 3; seedIdx++ {
			for _, cfg := range c02Configs {
				for _, g := range []int{8, 32, 64} {
					jobs = append(jobs, c02Job{cfg, g, 600 + rng.Intn(300), ""})
				}
			}
		}
		return jobs
	}
	for _, cfg := range c02Configs {
		jobs = append(jobs, c02Job{cfg, 8, 300, ""})
	}
	return jobs
}

func c02Stress(seed int64, tier string) *c02Result {
	res := &c02Result{Hits: map[string]int{}, Skips: map[string]int{}, Violations: []c02Violation{}, Samples: []any{}, Notes: []string{}}
	col := &c02Collector{res: res, seq: map[string]struct{}{}}
	rng := rand.New(rand.NewSource(seed))
	for i, job := range c02Jobs(tier, rng) {
		if col.failed() {
			break
		}
		c02RunJob(seed*1000+int64(i), job, col)
	}
	if !col.failed() {
		c02ColdStart(seed, tier, col)
	}
	if !col.failed() {
		n := 10
		if tier == "thorough" {
			n = 200
		}
		c02PausedRender(col, n)
		c02SharedData(col, n, 12)
		c02FsChurn(col, n/3+1)
		if !col.failed() {
			c02ManyInFlight(col, tier)
		}
		if !col.failed() {
			c02OverlapSweep(col, seed, tier)
		}
		if !col.failed() {
			c02OrderSweep(col, tier)
		}
	}
	for k := range col.seq {
		res.Distinct = append(res.Distinct, k)
	}
	sort.Strings(res.Distinct)
	return res
}

// child mode: `-child c02stress <seed> <tier>`; one JSON line on stdout; exit 3 when violations.
func c02StressChild(args []string) int {
	if len(args) < 2 {
		fmt.Fprintln(os.Stderr, "usage: -child c02stress <seed> <tier>")
		return 2
	}
	seed, _ := strconv.ParseInt(args[0], 10, 64)
	res := c02Stress(seed, args[1])
	b, _ := json.Marshal(res)
	fmt.Println(string(b))
	if len(res.Violations) > 0 {
		return 3
	}
	return 0
}

// ---- parent side -----------------------------------------------------------------------------------

// c02FirstBlock extracts the first runtime report starting at marker (a race report ends at the
// closing line of equals signs; a fatal error at the first blank line after the first goroutine).
func c02FirstBlock(stderr, marker string) string {
	i := strings.Index(stderr, marker)
	if i < 0 {
		return ""
	}
	rest := stderr[i:]
	if j := strings.Index(rest, "\n=================="); j > 0 {
		rest = rest[:j]
	}
	return truncate(rest, 6000)
}

func c02RunChild(e *Env, bin string, race bool, gomaxprocs int, seed int64) {
	r := e.Rep
	label := "plain"
	if race {
		label = "race"
	}
	cmd := exec.Command(bin, "-child", "c02stress", strconv.FormatInt(seed, 10), e.Tier)
	cmd.Env = append(os.Environ(), "GORACE=halt_on_error=0 exitcode=66")
	if gomaxprocs > 0 {
		cmd.Env = append(cmd.Env, "GOMAXPROCS="+strconv.Itoa(gomaxprocs))
		label += fmt.Sprintf("-P%d", gomaxprocs)
	}
	var stdout, stderr bytes.Buffer
	cmd.Stdout, cmd.Stderr = &stdout, &stderr
	start := time.Now()
	err := cmd.Run()
	dur := time.Since(start)
	r.Note(fmt.Sprintf("child %s seed %d: %.1fs, exit %v", label, seed, dur.Seconds(), err))
	replayBase := map[string]any{"kind": "c02stress", "binary": label, "seed": seed, "tier": e.Tier, "gomaxprocs": gomaxprocs,
		"command": fmt.Sprintf("%s -child c02stress %d %s", filepath.Base(bin), seed, e.Tier)}
	with := func(extra map[string]any) map[string]any {
		m := map[string]any{}
		for k, v := range replayBase {
			m[k] = v
		}
		for k, v := range extra {
			m[k] = v
		}
		return m
	}
	se := stderr.String()
	if blk := c02FirstBlock(se, "WARNING: DATA RACE"); blk != "" {
		r.Violate(Violation{Key: "data-race", What: "the Go race detector reports a data race in the concurrent workload: " + c02RaceSummary(blk),
			Broken: "C02_lockset no longer describes the code: an access outside the lockset discipline of TwigGen.Shared (or in a structure the emitter does not list)",
			Replay: with(map[string]any{"race_report": blk, "races": strings.Count(se, "WARNING: DATA RACE")})})
	}
	if blk := c02FirstBlock(se, "fatal error:"); blk != "" {
		r.Violate(Violation{Key: "fatal-error", What: "fatal runtime error in the concurrent workload: " + truncate(strings.SplitN(blk, "\n", 2)[0], 160),
			Broken: "C02_lockset (implementation-only oracle: no fatal runtime error)", Replay: with(map[string]any{"stderr": truncate(blk, 4000)})})
	}
	var res c02Result
	line := strings.TrimSpace(stdout.String())
	if k := strings.LastIndex(line, "\n"); k >= 0 {
		line = line[k+1:]
	}
	if jerr := json.Unmarshal([]byte(line), &res); jerr != nil {
		if err != nil && len(r.Violations) == 0 {
			r.Violate(Violation{Key: "child-failed", What: fmt.Sprintf("stress child (%s) died without a result: %v", label, err),
				Broken: "C02 implementation-only oracle (no fatal runtime error)", Replay: with(map[string]any{"stderr": truncate(se, 4000)})})
		}
		return
	}
	for _, v := range res.Violations {
		v.Replay["binary"] = label
		broken := "C02_serial_equiv_static / C02_relative_names (implementation-only oracle: concurrent result = serially computed result)"
		if v.Key == "panic" {
			broken = "C02 (implementation-only oracle: no panic under concurrency)"
		}
		r.Violate(Violation{Key: v.Key, What: v.What, Broken: broken, Replay: v.Replay})
	}
	r.Evaluations += res.Evals
	for _, d := range res.Distinct {
		r.Seen(d, true)
		r.Evaluations-- // Seen counts an evaluation; the child's total was added above
	}
	for k, n := range res.Hits {
		r.Dist[label+":"+k] += n
	}
	for k, n := range res.Skips {
		r.Skipped[k] += n
	}
	for _, s := range res.Samples {
		r.Sample(s)
	}
	for _, n := range res.Notes {
		r.Note(label + ": " + n)
	}
	if err != nil && len(res.Violations) == 0 && !strings.Contains(se, "WARNING: DATA RACE") && !strings.Contains(se, "fatal error:") {
		r.Violate(Violation{Key: "child-failed", What: fmt.Sprintf("stress child (%s) exited with %v", label, err),
			Broken: "C02 implementation-only oracle", Replay: with(map[string]any{"stderr": truncate(se, 4000)})})
	}
}

func c02RaceSummary(blk string) string {
	// first twig frame of each of the two conflicting accesses
	parts := strings.SplitN(blk, "\nPrevious ", 2)
	var frames []string
	for _, part := range parts {
		for _, l := range strings.Split(part, "\n") {
			l = strings.TrimSpace(l)
			if strings.HasPrefix(l, "github.com/semihalev/twig.") {
				frames = append(frames, strings.TrimPrefix(l, "github.com/semihalev/twig."))
				break
			}
		}
	}
	return strings.Join(frames, " vs ")
}

// ---- the lost update of Engine.Load racing with RegisterString (deterministic) ---------------------

// c02BlockingLoader is user code: a Loader whose Load can be held inside the call. That gives the
// schedule "A is between its cache miss and its cache fill" without any hook in the library.
type c02BlockingLoader struct {
	src     map[string]string
	entered chan struct{}
	release chan struct{}
	block   bool
}

func (l *c02BlockingLoader) Load(name string) (string, error) {
	s, ok := l.src[name]
	if !ok {
		return "", fmt.Errorf("%w: %s", twig.ErrTemplateNotFound, name)
	}
	if l.block {
		l.entered <- struct{}{}
		<-l.release
	}
	return s, nil
}
func (l *c02BlockingLoader) Exists(name string) bool { _, ok := l.src[name]; return ok }

// c02LostUpdate: goroutine A: Load("t") — held inside the loader; B: RegisterString("t", v2) returns;
// A released and returns; then Render("t"). Returns what A got and what the late render shows.
func c02LostUpdate(cacheOn bool) (aGot, late string, err error) {
	e := twig.New()
	e.SetCache(cacheOn)
	l := &c02BlockingLoader{src: map[string]string{"t": "LOADER-V1"}, entered: make(chan struct{}), release: make(chan struct{}), block: true}
	e.RegisterLoader(l)
	type res struct {
		out string
		err error
	}
	done := make(chan res, 1)
	go func() {
		t, err := e.Load("t")
		if err != nil {
			done <- res{"", err}
			return
		}
		o, err := t.Render(nil)
		done <- res{o, err}
	}()
	select {
	case <-l.entered:
	case <-time.After(5 * time.Second):
		return "", "", fmt.Errorf("loader was never called")
	}
	if err := e.RegisterString("t", "REGISTERED-V2"); err != nil {
		return "", "", err
	}
	l.block = false
	l.release <- struct{}{}
	var a res
	select {
	case a = <-done:
	case <-time.After(c02StuckAfter):
		return "", "", fmt.Errorf("%w: Load(\"t\") did not return within %v after the loader let it go on", errC02Stuck, c02StuckAfter)
	}
	if a.err != nil {
		return "", "", a.err
	}
	// the late render, with a time limit: whatever the overlap left behind on the engine (a lock, say) shows here
	lateDone := make(chan res, 1)
	go func() {
		o, err := e.Render("t", nil)
		lateDone <- res{o, err}
	}()
	select {
	case r := <-lateDone:
		return a.out, r.out, r.err
	case <-time.After(c02StuckAfter):
		return a.out, "", fmt.Errorf("%w: Render(\"t\") made after both overlapping calls had returned did not return within %v", errC02Stuck, c02StuckAfter)
	}
}

var errC02Stuck = errors.New("call never returned")

func c02LostUpdateCheck(e *Env) error {
	r := e.Rep
	for _, cacheOn := range []bool{true, false} {
		aGot, late, err := c02LostUpdate(cacheOn)
		r.Seen(fmt.Sprintf("lost-update|%v", cacheOn), true)
		r.Hit("lost-update-replay")
		if errors.Is(err, errC02Stuck) {
			r.Violate(Violation{Key: "engine-stuck-after-overlap",
				What:   fmt.Sprintf("cache=%v: A: Load(\"t\") held inside a user Loader.Load; B: RegisterString(\"t\") returns; A is let go on: %v. Run one after another, in either order, these calls return at once", cacheOn, err),
				Broken: "C02 (implementation-only oracle: every call returns, as it does when the calls run one after another)",
				Replay: map[string]any{"kind": "lost-update", "cache": cacheOn, "A_load_rendered": aGot, "error": err.Error(),
					"schedule": "A: engine.Load(\"t\") blocks inside a user Loader.Load (after its cache miss); B: engine.RegisterString(\"t\", \"REGISTERED-V2\") returns; A is released and returns; then engine.Render(\"t\")"}})
			continue
		}
		if err != nil {
			r.Note("lost-update replay could not run: " + err.Error())
			continue
		}
		code := func(s string) int {
			switch s {
			case "LOADER-V1":
				return 100
			case "REGISTERED-V2":
				return 200
			}
			return -1
		}
		replay := map[string]any{"kind": "lost-update", "cache": cacheOn,
			"schedule":      "A: engine.Load(\"t\") blocks inside a user Loader.Load (after its cache miss); B: engine.RegisterString(\"t\", \"REGISTERED-V2\") returns; A is released, fills the cache and returns; then engine.Render(\"t\")",
			"loader_source": "LOADER-V1", "registered_source": "REGISTERED-V2", "A_load_rendered": aGot, "late_render": late,
			"expected_late_render": "REGISTERED-V2 (in every serial order in which RegisterString precedes the late Render)"}
		if e.Model != nil {
			// the model has two variants of Engine.Load (fact `loadRechecksUnderWriteLock` of TwigGen.Shared):
			// without and with the re-check under the write lock; the engine must behave like one of them
			matched := ""
			for _, recheck := range []bool{false, true} {
				resp, err := e.Model.Call(map[string]any{"op": "conc_sem", "cacheOn": cacheOn, "recheck": recheck, "loader": [][]int{{7, 100}},
					"calls": []map[string]any{{"k": "load", "n": 7}, {"k": "register", "n": 7, "src": 200}, {"k": "render", "n": 7}},
					"sched": []int{0, 0, 1, 0, 0, 2, 2, 2}})
				if err != nil {
					return err
				}
				r.Compared++
				res, _ := resp["results"].([]any)
				replay[fmt.Sprintf("model_results_recheck_%v", recheck)] = res
				replay[fmt.Sprintf("model_linearizable_recheck_%v", recheck)] = resp["linearizable"]
				if len(res) == 3 && matched == "" {
					m0, _ := res[0].(float64)
					m2, _ := res[2].(float64)
					if int(m0) == code(aGot) && int(m2) == code(late) {
						matched = fmt.Sprintf("recheck=%v", recheck)
					}
				}
			}
			replay["model_variant_matched"] = matched
			r.Hit("lost-update-model-variant:" + matched)
			if matched == "" {
				r.Violate(Violation{Key: "lost-update-model-differs",
					What:   fmt.Sprintf("cache=%v: the engine gave Load→%q, late Render→%q; neither variant of the model's Engine.Load predicts that", cacheOn, aGot, late),
					Broken: "correspondence conc_sem (TwigModel.Conc.Sem.step vs Engine.Load / RegisterString)", Replay: replay})
			}
		}
		if late != "REGISTERED-V2" {
			r.Violate(Violation{Key: "load-register-lost-update",
				What:   fmt.Sprintf("cache=%v: RegisterString(\"t\") returned, then a Load(\"t\") that had missed earlier stored the loader's copy over it: a later Render(\"t\") shows %q", cacheOn, late),
				Broken: "C02_linearizable (refuted by C02_counterexample_load_register_lost_update; C02_serial_equiv_static excludes this workload)",
				Replay: replay})
		}
	}
	return nil
}

func runC02(e *Env) error {
	r := e.Rep
	r.Rule = "one shared engine per job (temp-dir FileSystemLoader + ArrayLoader; cache on / off / auto-reload), N goroutines × M calls drawn from " +
		"Render, RenderTo, Load, ParseTemplate, RegisterString(distinct fresh name)+Render over a seeded template set (extends, include, import, from, macros, " +
		"./ and ../ names in nested directories, one template above 4096 bytes); each result compared with the output of a twin engine computed serially; " +
		"non-trivial = expected output contains the goroutine's own marker; distinct by (config, call kind, template, goroutine). " +
		"Regression jobs first (concurrent first loads through the file-system loader, relative names from different directories, concurrent parses). " +
		"Plus: hundreds (thorough: thousands) of calls stopped by user code inside the same nested templates at the same time, further calls made meanwhile (c02_inflight.go). " +
		"Plus: forced overlaps around the loaders — one or two calls held inside a user Loader (before / after the read, inside GetModifiedTime; cold, warm and changed cache entries; every route, also nested through include / extends / import) while renders and registrations of the same and of other names complete, then every route once more with a time limit; results compared with every admissible serial order on twin engines (c02_overlap.go); the same with the call held inside the loader's look-up of a name written relative to the rendering template ('./x', '../x' in include / include ignore missing / extends / import / from, from a sub-directory and from the top level) whose resolved name the loader does not have, while the resolved name or the name as written is registered and the page is rendered by other calls (c02_relnames.go). " +
		"Plus: every schedule of start and finish events of 2, 3 and 4 calls stopped by user code inside nested templates (first-in-first-out, last-in-first-out, nested, mixed), on engines of every setting (default, debug mode, development mode, strict variables, loader with cache on / off / auto-reload), each result compared with the same call on a twin engine used serially (c02_order.go). " +
		"Run in a child of this binary and, when VERIF_RACE_BIN is set, in the -race build. Plus the deterministic Load/RegisterString lost-update replay (vs model op conc_sem)."
	if err := c02LostUpdateCheck(e); err != nil {
		return err
	}
	seeds := []int64{e.Seed}
	procs := []int{0}
	if e.Thorough() {
		seeds = []int64{e.Seed, e.Seed + 1}
		procs = []int{2, 16}
	}
	raceBin := os.Getenv("VERIF_RACE_BIN")
	if raceBin != "" {
		if _, err := os.Stat(raceBin); err != nil {
			r.Note("VERIF_RACE_BIN does not exist: " + raceBin)
			raceBin = ""
		}
	} else {
		r.Note("VERIF_RACE_BIN not set: the stress ran without the race detector only")
	}
	for _, seed := range seeds {
		for _, p := range procs {
			if e.Self != "" {
				c02RunChild(e, e.Self, false, p, seed)
			} else {
				// no path to ourselves: run in-process (a fatal runtime error then takes the harness down)
				res := c02Stress(seed, e.Tier)
				r.Evaluations += res.Evals
				for _, v := range res.Violations {
					r.Violate(Violation{Key: v.Key, What: v.What, Broken: "C02 implementation-only oracle", Replay: v.Replay})
				}
			}
			if raceBin != "" {
				c02RunChild(e, raceBin, true, p, seed)
			}
		}
	}
	return nil
}
