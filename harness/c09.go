package main

import (
	"fmt"
	"strings"
)

// C09 — if, for and set have their defined control-flow meaning.
//
// Correspondence M: generated programs nesting if/elseif/else, for/else and set over every value
// kind, rendered by the real engine and by the Lean pipeline model (scan → parse → render).
// Implementation-only oracle: the loop-metadata equations checked directly on the real output.

func init() { register("C09", runC09) }

func genControlCase(e *Env) *Case {
	g := NewGen(e.Rng)
	ctx := g.BaseCtx()
	partial := plainTpl.nodes([]GNode{NText{"<"}, NPrint{EVar{"n"}}, NPrint{EFilter{EVar{"p"}, "default", []GExpr{ELit{"-"}}}}, NText{">"}})
	body := g.Body(3, BodyOpts{Includes: []string{"partial"}})
	st := &TplStyle{Expr: Style{Rng: e.Rng, Extra: 0.1}}
	return &Case{Templates: map[string]string{"main": st.nodes(body), "partial": partial}, Main: "main", Ctx: ctx, FailAt: -1}
}

func runC09(e *Env) error {
	r := e.Rep
	r.Rule = "random programs nesting if/elseif/else, for/else (lists, maps, strings, ranges, non-iterables), set, include, apply, verbatim to depth 3 over a context with every value kind; " +
		"plus every list length 0..6 × loop-metadata probe (implementation-only); every pair of typed Go sequence spellings nested at every pair of lengths; loop nests over typed slices, arrays, lists of lists, records and typed maps against the model-checked []interface{} render; whitespace-bearing string literals in every position of for/if/set/do/include tags; loop bodies that (re)assign a variable at every place of the body (first node, last node, in a branch, in a nested loop …) × every value kind × every sequence kind, changed and read in the same body and read after the loop, with and without an assignment in front of the loop (model-checked; float literals, multi-byte strings and typed Go sequences against a direct computation), and the random programs with such resets put into their loops; non-trivial = renders without error and contains a for or if; distinct by main template source"
	// regression corpus: the pinned-tree defects of this property
	corpus := []struct{ src, want string }{
		{"{% if 1 - 1 %}T{% else %}F{% endif %}", "F"},
		{"{% if zero %}T{% else %}F{% endif %}{% if f64 %}T{% else %}F{% endif %}{% if u8 %}T{% else %}F{% endif %}", "FFF"},
		{"{% for c in 'héy' %}{{ loop.index }}{{ c }}{% endfor %}", "1h2é3y"},
		{"{% for a in [1,2] %}{% for b in [7] %}{{ b }}{% endfor %}{{ loop.index }}{% endfor %}", "7172"},
		{"{% set x = 1 %}{% for i in [1,2,3] %}{% set x = x + i %}{% endfor %}{{ x }}", "7"},
		{"{% for i in [] %}x{% else %}none{% endfor %}{% for i in nul %}x{% else %}nil{% endfor %}{% for i in 5 %}x{% else %}int{% endfor %}", "nonenilint"},
		{"{% for i in range(3, 1, -1) %}{{ i }}{% endfor %}|{% for i in range(1, 7, 3) %}{{ i }}{% endfor %}", "321|147"},
		// a variable that holds null is that variable, also when a macro has its name
		{"{% macro x() %}M{% endmacro %}{% set x = null %}{% if x %}T{% else %}F{% endif %}[{{ x }}]{% if x is null %}N{% endif %}{% for x in [null, 1] %}{% if x %}t{% else %}f{% endif %}{% endfor %}", "F[]Nft"},
		{"{% macro nul() %}M{% endmacro %}{% if nul %}T{% else %}F{% endif %}{% set y = nul %}{% if y is null %}N{% endif %}{% for v in [nul] %}{{ v is null ? 'n' : 'm' }}{% endfor %}", "FNn"},
	}
	for _, c := range corpus {
		res := renderSrc(c.src, map[string]any{"zero": 0, "f64": float64(0), "u8": uint8(0), "nul": nil})
		r.Seen("corpus:"+c.src, true)
		if res.Class != "" || res.Out != c.want {
			r.Violate(Violation{Key: "c09-corpus", What: fmt.Sprintf("%q renders %q (%s), expected %q", c.src, res.Out, res.Class, c.want),
				Broken: "C09 regression corpus (C09_falsy_table / C09_loop_meta / C09_nested / C09_set_visible)", Replay: map[string]any{"kind": "src", "src": c.src, "want": c.want, "got": res.Out, "class": res.Class}})
		}
	}
	c09TruthTable(e)
	// implementation-only: loop metadata for every length 0..6 (thorough: 0..40), lists and strings and ranges
	maxLen := e.N(6, 40)
	for n := 0; n <= maxLen && !r.Full(); n++ {
		items := make([]interface{}, n)
		for i := range items {
			items[i] = i * 2
		}
		tpl := "{% for v in xs %}{{ loop.index }},{{ loop.index0 }},{{ loop.revindex }},{{ loop.revindex0 }},{{ loop.first }},{{ loop.last }},{{ loop.length }},{{ v }};{% else %}E{% endfor %}"
		var want strings.Builder
		for i := 0; i < n; i++ {
			fmt.Fprintf(&want, "%d,%d,%d,%d,%t,%t,%d,%d;", i+1, i, n-i, n-i-1, i == 0, i == n-1, n, i*2)
		}
		if n == 0 {
			want.WriteString("E")
		}
		for _, variant := range []struct {
			name string
			ctx  map[string]any
		}{{"list", map[string]any{"xs": items}}, {"typed", map[string]any{"xs": func() []int {
			o := make([]int, n)
			for i := range o {
				o[i] = i * 2
			}
			return o
		}()}}} {
			res := renderSrc(tpl, variant.ctx)
			r.Seen(fmt.Sprintf("meta:%s:%d", variant.name, n), n > 0)
			if res.Class != "" || res.Out != want.String() {
				r.Violate(Violation{Key: "loop-metadata", What: fmt.Sprintf("loop metadata wrong for a %s of length %d", variant.name, n),
					Broken: "theorem C09_loop_meta no longer describes the code (implementation-only oracle)",
					Replay: map[string]any{"kind": "src", "src": tpl, "n": n, "want": want.String(), "got": res.Out, "class": res.Class}})
			}
		}
	}
	// the same equations when the sequence is a string (counted in characters, not bytes) or a map (in key order)
	for n := 0; n <= maxLen && !r.Full(); n++ {
		chars := []string{"a", "é", "世", "😀", "z", "ß"}
		var str strings.Builder
		m := map[string]interface{}{}
		var wantS, wantM strings.Builder
		for i := 0; i < n; i++ {
			c := chars[i%len(chars)]
			str.WriteString(c)
			fmt.Fprintf(&wantS, "%d,%d,%d,%d,%t,%t,%d,%s;", i+1, i, n-i, n-i-1, i == 0, i == n-1, n, c)
			k := fmt.Sprintf("k%02d", i)
			m[k] = i * 3
			fmt.Fprintf(&wantM, "%d,%d,%d,%d,%t,%t,%d,%d;", i+1, i, n-i, n-i-1, i == 0, i == n-1, n, i*3)
		}
		if n == 0 {
			wantS.WriteString("E")
			wantM.WriteString("E")
		}
		tpl := "{% for v in xs %}{{ loop.index }},{{ loop.index0 }},{{ loop.revindex }},{{ loop.revindex0 }},{{ loop.first }},{{ loop.last }},{{ loop.length }},{{ v }};{% else %}E{% endfor %}"
		for _, variant := range []struct {
			name string
			val  any
			want string
		}{{"string", str.String(), wantS.String()}, {"map", m, wantM.String()}} {
			c := &Case{Templates: map[string]string{"main": tpl}, Main: "main", Ctx: map[string]any{"xs": variant.val}, FailAt: -1}
			im, _, _, err := compareCase(e, c, "render-model-c09", "correspondence render on loop metadata over strings and maps")
			if err != nil {
				return err
			}
			r.Seen(fmt.Sprintf("meta:%s:%d", variant.name, n), n > 0)
			if im.Class != "" || im.Out != variant.want {
				r.Violate(Violation{Key: "loop-metadata", What: fmt.Sprintf("loop metadata wrong for a %s of length %d: %q, expected %q", variant.name, n, truncate(im.Out, 120), truncate(variant.want, 120)),
					Broken: "theorem C09_loop_meta no longer describes the code (implementation-only oracle)",
					Replay: map[string]any{"kind": "src", "src": tpl, "n": n, "want": variant.want, "got": im.Out, "class": im.Class}})
			}
		}
	}
	// sequences written as literals that contain variables, at every nesting depth, in every loop form: evaluated at each
	// execution of the loop (run with the re-render oracles forced: second render, other context, other engine settings)
	forceOracles = true
	for _, src := range []string{
		"{% for r in [[x, 'a'], [x, 'b']] %}{{ r[0] }}{{ r[1] }};{% endfor %}",
		"{% for o in [1, 2] %}{% for r in [[o, x], [x, o]] %}{{ r|join('-') }};{% endfor %}{% endfor %}",
		"{% for r in [{'k': x}, {'k': n}] %}{{ r.k }};{% endfor %}{% for r in [x, n, [x]] %}{{ r is iterable ? r|first : r }};{% endfor %}",
		"{% for k, v in {'a': x, 'b': [n, x]} %}{{ k }}={{ v is iterable ? v|join(',') : v }};{% endfor %}",
		"{% for i in [1, 2, 3]|slice(0, n) %}{{ i }}{% endfor %}|{% for i in range(1, n) %}{{ i }}{% endfor %}|{% for i in [n, n + 1] %}{{ i }}{% endfor %}",
		"{% set q = [[x]] %}{% for r in q %}{{ r[0] }}{% endfor %}{% for r in [[1, 2], [3, 4]] %}{{ r[0] + n }};{% endfor %}",
		"{% if [x]|first == 's' %}S{% else %}T{% endif %}{{ {'k': [x, n]}['k']|join('/') }}{{ [[n]]|first|first }}",
	} {
		c := &Case{Templates: map[string]string{"main": src}, Main: "main", Ctx: map[string]any{"x": "s", "n": 2}, FailAt: -1}
		if _, _, _, err := compareCase(e, c, "render-model-c09", "correspondence render on loops over literal sequences holding variables"); err != nil {
			forceOracles = false
			return err
		}
		r.Seen("literal-seq:"+src, true)
	}
	forceOracles = false
	// sequences as Go callers pass them (typed slices, arrays, maps): c09_typed.go
	runTypedNestMatrix(e)
	if err := runTypedPrograms(e); err != nil {
		return err
	}
	// whitespace-bearing string literals inside the tags: c09_ws.go
	if err := runWhitespaceLiterals(e); err != nil {
		return err
	}
	// a statement of a loop body runs once per element, where it stands (resets at the top of the body …): c09_body.go
	if err := c09RunBodyResets(e); err != nil {
		return err
	}
	// differential
	n := e.N(1500, 60000)
	for i := 0; i < n && !r.Full(); i++ {
		c := genControlCase(e)
		im, _, ok, err := compareCase(e, c, "render-model-c09", "correspondence render (TwigModel.Render vs node.go/render.go) on control-flow programs")
		if err != nil {
			return err
		}
		main := c.Templates["main"]
		r.Seen(main, ok && im.Class == "" && hasAny(main, "{% for", "{% if"))
		if i < 2 {
			r.Sample(describeCase(c))
		}
		r.Hit("class:" + im.Class)
		if strings.Contains(main, "{% for") {
			r.Hit("has-for")
		}
		if strings.Contains(main, "elseif") {
			r.Hit("has-elseif")
		}
	}
	return nil
}
