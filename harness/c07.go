package main

import (
	"fmt"
	"html"
	"math"
	"math/rand"
	"strconv"
	"strings"
	"unicode/utf8"

	"github.com/semihalev/twig"
)

// C07 — the escape filter neutralises every HTML-significant character.
//
// Correspondence M: every place a filter can be applied ({{ v|e }}, {{ v|escape }}, filter chain, {% apply %},
// macro body (own, imported, from-imported), included template, nil-environment fallback) against
// Escape.escReg / Escape.escFallback (Lean; theorems C07_no_raw, C07_roundtrip, C07_others_unchanged,
// C07_fallback_valid_utf8_partial, C07_alias).  Implementation-only oracles on every output of the
// registered filter: (1) html.UnescapeString(out) == input; (2) no raw < > " ' and every & starts one of the
// five references; (3) e ≡ escape on every route; (4) non-string values: out == html.EscapeString(toString(v)).
// The engine is twig.New() with its defaults.

func init() { register("C07", runC07) }

type c07Route struct {
	name  string
	main  string            // template to render; the value is the context variable v
	tpls  map[string]string // all templates of the route (main included)
	pre   string            // literal text the route adds before the escaped value
	post  string
	twice bool // the route escapes the value twice (an escape applied to escaped text escapes again)
	// literal text that is escaped together with the value (the body of an apply block that holds more than the value:
	// a macro, an include, a block … rendering text around it)
	ipre, ipost string
	// a light route runs on every input kind except the bulk ones (quick tier: one eighth of the byte pairs, by seed)
	light bool
	// operand routes (c07_operands.go): how the text that reaches the filter follows from the value ("" = the value itself),
	// and whether the route takes strings only
	conv    string
	strOnly bool
}

// want: the whole output of the route for a value whose escaped form is `escaped` (escaping is byte-wise, so the
// escape of ipre+value+ipost is the concatenation of the three escapes)
func (r c07Route) want(escaped string) string {
	a, b := r.lit()
	if r.twice {
		escaped = html.EscapeString(escaped)
	}
	return a + escaped + b
}

// lit: the literal text of the output before and after the escaped value
func (r c07Route) lit() (string, string) {
	a, b := html.EscapeString(r.ipre), html.EscapeString(r.ipost)
	if r.twice {
		a, b = html.EscapeString(a), html.EscapeString(b)
	}
	return r.pre + a, b + r.post
}

func c07Routes() []c07Route {
	mk := func(name, src string, extra map[string]string, pre, post string) c07Route {
		t := map[string]string{"main": src}
		for k, v := range extra {
			t[k] = v
		}
		return c07Route{name: name, main: "main", tpls: t, pre: pre, post: post, twice: strings.HasPrefix(name, "twice-")}
	}
	var rs []c07Route
	for _, f := range []string{"e", "escape"} {
		rs = append(rs,
			mk("print:"+f, "{{ v|"+f+" }}", nil, "", ""),
			mk("chain:"+f, "[{{ v|raw|"+f+"|raw }}]", nil, "[", "]"),
			mk("apply:"+f, "{% apply "+f+" %}{{ v }}{% endapply %}", nil, "", ""),
			mk("apply-text:"+f, "a{% apply "+f+" %}{{ v }}{% endapply %}b", nil, "a", "b"),
			mk("macro-self:"+f, "{% macro m(x) %}({{ x|"+f+" }}){% endmacro %}{{ _self.m(v) }}", nil, "(", ")"),
			mk("macro-import:"+f, "{% import 'macros' as mm %}{{ mm.show(v) }}", map[string]string{"macros": "{% macro show(x) %}<i>{{ x|" + f + " }}</i>{% endmacro %}"}, "<i>", "</i>"),
			mk("macro-from:"+f, "{% from 'macros' import show %}{{ show(v) }}", map[string]string{"macros": "{% macro show(x) %}{{ x|" + f + " }}{% endmacro %}"}, "", ""),
			mk("include:"+f, "{% include 'inc' %}", map[string]string{"inc": "{{ v|" + f + " }}"}, "", ""),
			mk("include-apply:"+f, "{% include 'inc' %}", map[string]string{"inc": "{% apply " + f + " %}{{ v }}{% endapply %}"}, "", ""),
			mk("for:"+f, "{% for x in [v] %}{{ x|"+f+" }}{% endfor %}", nil, "", ""),
			mk("set:"+f, "{% set y = v|"+f+" %}{{ y }}", nil, "", ""),
			// the escaped value is itself built from filtered sub-expressions (a chain inside the operand or the
			// arguments of the escaping chain)
			mk("nested-concat:"+f, "{{ (v|raw|raw ~ ''|raw)|"+f+" }}", nil, "", ""),
			mk("nested-arg:"+f, "<{{ nosuchvar|default(v|raw|raw)|"+f+" }}>", nil, "<", ">"),
			mk("nested-ternary:"+f, "{{ (true ? v|raw|raw : 'x'|upper|lower)|"+f+"|raw }}", nil, "", ""),
			mk("nested-array:"+f, "{{ [v|raw|raw, 'q'|upper|lower]|first|"+f+" }}", nil, "", ""),
			mk("nested-both:"+f, "{{ ('a'|upper|lower ~ 'b'|upper|lower) ~ (v|raw|raw|"+f+") ~ ('c'|upper|lower|"+f+") }}", nil, "ab", "c"),
			// the filter called with an argument (Twig's escaping strategy): whatever the argument, the result is never less
			// than HTML escaping for these names
			mk("arg-html:"+f, "{{ v|"+f+"('html') }}", nil, "", ""),
			mk("arg-html-attr:"+f, "{{ v|"+f+"('html_attr') }}", nil, "", ""),
			mk("arg-upper:"+f, "{{ v|"+f+"('HTML') }}", nil, "", ""),
			mk("arg-undefined:"+f, "{{ v|"+f+"(nosuchstrategy) }}", nil, "", ""),
			mk("arg-omitted-param:"+f, "{% macro m(x, s) %}{{ x|"+f+"(s) }}{% endmacro %}{{ _self.m(v) }}", nil, "", ""),
			// escaping what is already escaped escapes again (the filter is not idempotent and no chain may drop a repetition)
			mk("twice-chain:"+f, "{{ v|"+f+"|"+f+" }}", nil, "", ""),
			mk("twice-mixed:"+f, "{{ v|e|escape|raw }}", nil, "", ""),
			mk("twice-apply:"+f, "{% apply "+f+" %}{{ v|"+f+" }}{% endapply %}", nil, "", ""),
			mk("twice-set:"+f, "{% set y = v|"+f+" %}{{ y|"+f+" }}", nil, "", ""),
			// inside `include … sandboxed` under the library's own default policy (both names are on its list): the two names
			// stay interchangeable in every position of a chain
			mk("sandbox-print:"+f, "{% include 'inc' sandboxed %}", map[string]string{"inc": "{{ v|" + f + " }}"}, "", ""),
			mk("sandbox-chain:"+f, "{% include 'inc' sandboxed %}", map[string]string{"inc": "{{ v|" + f + "|raw }}"}, "", ""),
			mk("sandbox-apply:"+f, "{% include 'inc' sandboxed %}", map[string]string{"inc": "{% apply " + f + " %}{{ v }}{% endapply %}"}, "", ""),
			mk("sandbox-arg:"+f, "{% include 'inc' sandboxed %}", map[string]string{"inc": "{{ nosuchvar|default(v|" + f + ")|raw }}"}, "", ""),
			// the same apply block entered again while it is being rendered (recursive macro, self-including template)
			mk("apply-reentrant-macro:"+f, "{% macro rec(x, n, y) %}{% apply "+f+" %}[{{ x }}{% if n > 0 %}{{ _self.rec('i', n - 1, 'j') }}{% endif %}{{ y }}]{% endapply %}{% endmacro %}{{ _self.rec(v, 1, 'z') }}", nil, "[", "[ij]z]"),
			mk("apply-reentrant-include:"+f, "{% include 'inc' with {'x': v, 'n': 1, 'y': 'z'} %}",
				map[string]string{"inc": "{% apply " + f + " %}[{{ x }}{% if n > 0 %}{% include 'inc' with {'x': 'i', 'n': 0, 'y': 'j'} %}{% endif %}{{ y }}]{% endapply %}"}, "[", "[ij]z]"),
		)
		rs = append(rs, c07ShapeRoutes(f)...)
	}
	return rs
}

type c07Engine struct {
	route c07Route
	eng   *twig.Engine
}

func c07Build() ([]c07Engine, error) {
	var out []c07Engine
	for _, r := range c07Routes() {
		var opts []EngineOpt
		if strings.HasPrefix(r.name, "sandbox-") {
			opts = append(opts, func(e *twig.Engine) { e.EnableSandbox(twig.NewDefaultSecurityPolicy()) })
		}
		e, err := newEngine(r.tpls, opts...)
		if err != nil {
			return nil, fmt.Errorf("route %s: %w", r.name, err)
		}
		out = append(out, c07Engine{r, e})
	}
	return out, nil
}

// c07Render renders one value through one route with panic recovery.
func c07Render(en c07Engine, v any) (out string, errs string) {
	defer func() {
		if p := recover(); p != nil {
			errs = fmt.Sprintf("panic: %v", p)
		}
	}()
	s, err := en.eng.Render(en.route.main, map[string]any{"v": v})
	if err != nil {
		return "", err.Error()
	}
	return s, ""
}

// c07Fallback reaches ApplyFilter's built-in routine the two ways the public API allows: a render context
// without environment, and a template loaded with a nil environment.
func c07Fallback(name, s string) (out string, errs string) {
	defer func() {
		if p := recover(); p != nil {
			errs = fmt.Sprintf("panic: %v", p)
		}
	}()
	rc := twig.NewRenderContext(nil, nil, nil)
	defer rc.Release()
	o, err := rc.ApplyFilter(name, s)
	if err != nil {
		return "", err.Error()
	}
	str, ok := o.(string)
	if !ok {
		return "", fmt.Sprintf("fallback returned %T", o)
	}
	return str, ""
}

var c07NilEnvTpl = map[string]*twig.Template{}

func c07FallbackTemplate(name, s string) (out string, errs string) {
	defer func() {
		if p := recover(); p != nil {
			errs = fmt.Sprintf("panic: %v", p)
		}
	}()
	t := c07NilEnvTpl[name]
	if t == nil {
		var err error
		t, err = twig.LoadFromCompiled(&twig.CompiledTemplate{Name: "nilenv-" + name, Source: "{{ v|" + name + " }}"}, nil, nil)
		if err != nil {
			return "", err.Error()
		}
		c07NilEnvTpl[name] = t
	}
	o, err := t.Render(map[string]any{"v": s})
	if err != nil {
		return "", err.Error()
	}
	return o, ""
}

var c07Refs = []string{"&amp;", "&#39;", "&lt;", "&gt;", "&#34;"}

// c07NoRaw: none of < > " ' and every & starts one of the five references.
func c07NoRaw(out string) string {
	for i := 0; i < len(out); i++ {
		switch out[i] {
		case '<', '>', '"', '\'':
			return fmt.Sprintf("raw %q at offset %d", out[i], i)
		case '&':
			ok := false
			for _, r := range c07Refs {
				if strings.HasPrefix(out[i:], r) {
					ok = true
				}
			}
			if !ok {
				return fmt.Sprintf("& at offset %d does not start a reference", i)
			}
		}
	}
	return ""
}

// c07ToString mirrors extension.go toString (what filterEscape applies before escaping).
func c07ToString(v any) string {
	if v == nil {
		return ""
	}
	switch val := v.(type) {
	case string:
		return val
	case int:
		return strconv.Itoa(val)
	case int64:
		return strconv.FormatInt(val, 10)
	case float64:
		return strconv.FormatFloat(val+0, 'f', -1, 64)
	case bool:
		return strconv.FormatBool(val)
	case []byte:
		return string(val)
	case fmt.Stringer:
		return val.String()
	}
	return fmt.Sprintf("%v", v)
}

type c07Stringer struct{ s string }

func (s c07Stringer) String() string { return s.s }

// c07Model asks the driver for escReg of a batch.
func c07Model(m *Model, op string, strs []string) ([]string, []bool, error) {
	hs := make([]string, len(strs))
	for i, s := range strs {
		hs[i] = hx(s)
	}
	resp, err := m.Call(map[string]any{"op": op, "strs": hs})
	if err != nil {
		return nil, nil, err
	}
	arr, _ := resp["outs"].([]any)
	if len(arr) != len(strs) {
		return nil, nil, fmt.Errorf("%s: %d answers for %d inputs", op, len(arr), len(strs))
	}
	outs := make([]string, len(arr))
	for i, a := range arr {
		s, _ := a.(string)
		outs[i] = unhx(s)
	}
	var valid []bool
	if va, ok := resp["valid"].([]any); ok {
		valid = make([]bool, len(va))
		for i, a := range va {
			valid[i], _ = a.(bool)
		}
	}
	return outs, valid, nil
}

func c07Short(s string) string {
	h := hx(s)
	if len(h) > 512 {
		return h[:512] + fmt.Sprintf("…(+%d hex digits)", len(h)-512)
	}
	return h
}

// c07Shrink narrows a failing string input to a short substring that still fails under `bad`.
func c07Shrink(s string, bad func(string) bool) string {
	if len(s) <= 8 {
		return s
	}
	for len(s) > 8 {
		h := len(s) / 2
		switch {
		case bad(s[:h]):
			s = s[:h]
		case bad(s[h:]):
			s = s[h:]
		default:
			// the failure straddles the middle: trim from both ends while it persists
			for len(s) > 8 && bad(s[1:]) {
				s = s[1:]
			}
			for len(s) > 8 && bad(s[:len(s)-1]) {
				s = s[:len(s)-1]
			}
			return s
		}
	}
	return s
}

// c07CheckBatch renders every string through every route and compares with the model's escReg and the
// implementation-only oracles. want may be nil (no model).
func c07CheckBatch(e *Env, engines []c07Engine, strs []string, want []string, kind string) {
	r := e.Rep
	for i, s := range strs {
		exp := html.EscapeString(s) // used only when there is no model answer; the model is the reference otherwise
		if want != nil {
			exp = want[i]
			r.Compared++
		}
		var first string
		for ri, en := range engines {
			out, errs := c07Render(en, s)
			bad := func(x string) bool {
				o, er := c07Render(en, x)
				return er != "" || o != en.route.want(html.EscapeString(x))
			}
			if errs != "" || out != en.route.want(exp) {
				small := s
				if want == nil || html.EscapeString(s) == exp {
					small = c07Shrink(s, bad)
				}
				r.Violate(Violation{Key: "escape-route-" + strings.SplitN(en.route.name, ":", 2)[0], What: fmt.Sprintf("route %s: output differs from Escape.escReg on %s input", en.route.name, kind),
					Broken: "correspondence escape_reg (TwigModel.Escape.escReg vs filterEscape/html.EscapeString through " + en.route.name + ")",
					Replay: map[string]any{"kind": "route", "route": en.route.name, "templates": en.route.tpls, "input_hex": c07Short(small), "full_input_len": len(s),
						"impl_hex": c07Short(out), "impl_err": errs, "model_hex": c07Short(en.route.want(exp))}})
				if r.Full() {
					return
				}
				continue
			}
			la, lb := en.route.lit()
			inner := out[len(la) : len(out)-len(lb)]
			if ri == 0 {
				first = inner
				// implementation-only oracles on the escaped text itself (once per input: all routes are then compared to it)
				if msg := c07NoRaw(inner); msg != "" {
					r.Violate(Violation{Key: "raw-special", What: "escaped output contains a raw special character: " + msg, Broken: "theorem C07_no_raw no longer describes the code (implementation-only oracle)",
						Replay: map[string]any{"kind": "no-raw", "input_hex": c07Short(s), "out_hex": c07Short(inner)}})
				}
				if back := html.UnescapeString(inner); back != s {
					r.Violate(Violation{Key: "unescape-roundtrip", What: "html.UnescapeString(escape(s)) ≠ s", Broken: "theorem C07_roundtrip no longer describes the code (implementation-only oracle)",
						Replay: map[string]any{"kind": "roundtrip", "input_hex": c07Short(s), "out_hex": c07Short(inner), "decoded_hex": c07Short(back)}})
				}
			} else if inner != c07Expect(en, first) {
				r.Violate(Violation{Key: "routes-disagree", What: fmt.Sprintf("route %s and route %s escape the same value differently", engines[0].route.name, en.route.name),
					Broken: "theorem C07_alias no longer describes the code (implementation-only oracle: e ≡ escape in every route)",
					Replay: map[string]any{"kind": "routes", "input_hex": c07Short(s), "a": c07Short(first), "b": c07Short(inner)}})
			}
		}
		special := strings.ContainsAny(s, "<>&\"'")
		r.Seen(kind+":"+s, special || !utf8.ValidString(s))
		if r.Full() {
			return
		}
	}
}

// c07CheckFallback compares ApplyFilter's built-in routine (nil environment) with Escape.escFallback and checks
// the property on valid UTF-8.
func c07CheckFallback(e *Env, strs []string, kind string) error {
	r := e.Rep
	var want []string
	var valid []bool
	if e.Model != nil {
		var err error
		want, valid, err = c07Model(e.Model, "escape_fallback", strs)
		if err != nil {
			return err
		}
	}
	for i, s := range strs {
		outs := map[string]string{}
		for _, name := range []string{"e", "escape"} {
			o, errs := c07Fallback(name, s)
			o2, errs2 := c07FallbackTemplate(name, s)
			if errs != "" || errs2 != "" || o != o2 {
				r.Violate(Violation{Key: "fallback-routes", What: "the two nil-environment routes disagree or fail: " + errs + errs2, Broken: "C07_alias (fallback)",
					Replay: map[string]any{"kind": "fallback", "name": name, "input_hex": c07Short(s), "ctx_hex": c07Short(o), "tpl_hex": c07Short(o2)}})
				continue
			}
			outs[name] = o
		}
		if outs["e"] != outs["escape"] {
			r.Violate(Violation{Key: "fallback-alias", What: "fallback e and escape differ", Broken: "theorem C07_alias (envPresent = false)",
				Replay: map[string]any{"kind": "fallback", "input_hex": c07Short(s), "e": c07Short(outs["e"]), "escape": c07Short(outs["escape"])}})
		}
		o := outs["e"]
		if want != nil {
			r.Compared++
			if o != want[i] {
				r.Violate(Violation{Key: "fallback-model", What: "ApplyFilter's built-in escape differs from Escape.escFallback on " + kind + " input",
					Broken: "correspondence escape_fallback (TwigModel.Escape.escFallback vs render_filter.go ApplyFilter)",
					Replay: map[string]any{"kind": "fallback", "input_hex": c07Short(s), "impl_hex": c07Short(o), "model_hex": c07Short(want[i])}})
			}
			if valid != nil && valid[i] != utf8.ValidString(s) {
				r.Violate(Violation{Key: "validutf8-model", What: "Escape.validUtf8 disagrees with utf8.ValidString", Broken: "correspondence of Escape.runeLen with unicode/utf8 (hypothesis of C07_fallback_valid_utf8_partial)",
					Replay: map[string]any{"kind": "fallback", "input_hex": c07Short(s), "model_valid": valid[i]}})
			}
		}
		if utf8.ValidString(s) {
			// the property holds for the fallback on valid UTF-8 (C07_fallback_valid_utf8_partial)
			fb := strings.ReplaceAll(o, "&quot;", "&#34;")
			if msg := c07NoRaw(fb); msg != "" || html.UnescapeString(o) != s {
				r.Violate(Violation{Key: "fallback-valid-utf8", What: "fallback output on valid UTF-8 has a raw special character or does not decode to its input: " + msg,
					Broken: "theorem C07_fallback_valid_utf8_partial no longer describes the code (implementation-only oracle)",
					Replay: map[string]any{"kind": "fallback", "input_hex": c07Short(s), "out_hex": c07Short(o)}})
			}
			r.Hit("fallback:valid-utf8")
		} else {
			// known and proved: invalid bytes become U+FFFD (C07_counterexample_fallback_invalid_utf8); not a violation of the
			// registered filter, recorded for the distribution
			if html.UnescapeString(o) == s {
				r.Hit("fallback:invalid-utf8-but-roundtrips")
			} else {
				r.Hit("fallback:invalid-utf8-replaced-by-U+FFFD")
			}
		}
		r.Seen("fb:"+kind+":"+s, true)
		if r.Full() {
			return nil
		}
	}
	return nil
}

// ---- generators ----------------------------------------------------------------------------------

var c07Alphabet = []string{"<", ">", "&", "\"", "'", "&amp;", "&lt;", "&#39;", "&#34;", "&quot;", "&gt;", "&", "&#", "&#x3c;", ";", "a", "Z", "0", " ", "\n", "\x00",
	"é", "世", "😀", " ", "�", "\x80", "\xff", "\xc3", "\xe4\xb8", "\xf0\x9f\x98", "\xed\xa0\x80", "\xc0\xaf", "\xf4\x90\x80\x80", "amp;", "lt;"}

func c07Rand(r *rand.Rand, n int) string {
	var sb strings.Builder
	for sb.Len() < n {
		if r.Intn(6) == 0 {
			sb.WriteByte(byte(r.Intn(256)))
		} else {
			sb.WriteString(c07Alphabet[r.Intn(len(c07Alphabet))])
		}
	}
	return sb.String()
}

// every Unicode scalar value in [lo, hi) as one string
func c07CodePoints(lo, hi rune) string {
	var sb strings.Builder
	for c := lo; c < hi; c++ {
		if c >= 0xD800 && c <= 0xDFFF {
			continue
		}
		sb.WriteRune(c)
	}
	return sb.String()
}

func c07Values(r *rand.Rand) []any {
	return []any{0, 1, -1, 42, math.MaxInt64, int64(math.MinInt64), int64(7), true, false, nil, 1.5, -0.25, 1e21, 1e-7, math.Copysign(0, -1), float32(2.5), uint(3), uint8(60),
		[]byte("<b>&\"'"), []any{"<", 1, "&", nil, true}, []string{"a<b", "c>d"}, []int{1, 2, 3}, map[string]any{"k": "<v>", "a&b": "'q'"}, map[string]string{"<": ">"},
		c07Stringer{"<stringer & 'co'>"}, [2]string{"<", ">"}, struct{ A string }{"<s>"}, &struct{ B string }{"\"p\""}, []any{[]any{"<nested>"}, map[string]any{"x": "&"}},
		c07Rand(r, 12), int32(-5), 'x', complex(1, 2), c07Err("<err & msg>")}
}

type c07Err string

func (e c07Err) Error() string { return string(e) }

// ---- runner --------------------------------------------------------------------------------------

func runC07(e *Env) error {
	r := e.Rep
	r.Rule = "every input is rendered through 36 routes (print, filter chain, apply block, apply next to text, macro via _self / import / from, include, include+apply, for body, set, filtered sub-expressions inside the operand or arguments of the escaping chain, an apply block re-entered through a recursive macro or a self-including template; each with e and escape) " +
		"on a twig.New() engine and compared with Escape.escReg; inputs: all 256 single bytes and all 65 536 byte pairs (exhaustive), all triples over 24 (thorough: 40) selected bytes, regression strings, already-escaped text, random mixes of special characters, references, " +
		"multi-byte and invalid UTF-8, 1 MiB strings, every Unicode scalar value (quick: 1 in 16 blocks of 4096 plus the boundaries; thorough: all 1 112 064), non-string values against html.EscapeString(toString(v)); " +
		"apply-body shapes (22 light routes × two names: the body is exactly one print tag whose value is a macro call — local, _self, imported, from-imported, aliased — or parent(), a compound expression, exactly one include / block / if / for / nested apply, the same between trimmed whitespace or next to text; expected escape(text the body adds) + escReg(v)); " +
		"macro-body text interpolated by the macro call (templates assembled from nodes: NewMacroNode + NewTextNode carrying {{ name|e }} placeholders, called by name, through import and from-import): 2 736 spellings of the placeholder (six kinds of blank in each of the four places, both names, the :argument form) against escReg(v), strings and non-string values; " +
		"operand routes (c07_operands.go; 466 engines, each rendering every regression string, single byte, random string, one batch of code points and every non-string value in turn): the value below the escaped expression — hash value / bare key / computed key, hash among literals, hash as base or argument of merge / default, hash in array, array in hash, hash in cycle() / ternary / ~, array item, ternary branch, filter and function argument, json_encode of hash / array / value (expected text by encoding/json), a condition on the value — × print, chain, apply, macro, imported macro, include × two names, plus set / for / if / macro argument / include-with holding the hash and the filter inside the literal; expected literal text + escReg(text reaching the filter), a mismatch is re-rendered on a fresh engine (stale vs wrong); " +
		"the destination (c07_writers.go): every route × the regression strings and random strings written by Engine.RenderTo and Load + Template.RenderTo into a strings.Builder and into plain io.Writers that consume their bytes at once or only after something else has happened (another page rendered on the same goroutine to a writer / to a string, another user of twig.GetBuffer, another goroutine rendering while the writer waits — on one processor and on all —, a garbage collection), then 8 goroutines rendering their own route and value to io.Pipes read in small pieces (one processor and all); expected literal text + escReg(v), the page rendered meanwhile is checked too; " +
		"the nil-environment fallback (two routes × two names) against Escape.escFallback on the same single bytes, pairs, code points and random strings. " +
		"non-trivial = input contains one of < > & \" ' or is not valid UTF-8; distinct by input"
	// another engine of the same process replaces e / escape / raw by filters of its own BEFORE the engines under
	// test are created (and once more after): filter tables are per engine, a stock engine keeps escaping
	c07OtherEngineOverrides()
	engines, err := c07Build()
	if err != nil {
		return err
	}
	c07OtherEngineOverrides()
	r.Hit("other-engine-overrides-escape")
	// FACT: the name tables
	if e.Model != nil {
		resp, err := e.Model.Call(map[string]any{"op": "escape_names"})
		if err != nil {
			return err
		}
		for _, key := range []string{"registered", "fallback"} {
			names, _ := resp[key].([]any)
			got := map[string]bool{}
			for _, n := range names {
				got[fmt.Sprint(n)] = true
			}
			if len(got) != 2 || !got["e"] || !got["escape"] {
				r.Violate(Violation{Key: "fact-names", What: "FACT name table " + key + " is not {e, escape}", Broken: "FACT Escape.escapeNames / fallbackNames (C07_alias)", Replay: map[string]any{"kind": "fact", "table": key, "names": names}})
			}
		}
		// a name that is not registered is refused by both the code and the model (so the alias is not vacuous)
		if _, errs := c07Render(c07Engine{c07Route{main: "main"}, c07MustEngine(map[string]string{"main": "{{ v|esc }}"})}, "x"); errs == "" {
			r.Violate(Violation{Key: "fact-names", What: "filter name `esc` is accepted", Broken: "FACT Escape.escapeNames", Replay: map[string]any{"kind": "fact"}})
		}
	}

	// light routes (apply-body shapes) skip the bulk in the quick tier: one eighth of the byte pairs (chosen by the seed), no
	// byte triples, one of the 1 MiB strings; the node-built macro-text route skips pairs and triples
	var heavy []c07Engine
	for _, en := range engines {
		if !en.route.light {
			heavy = append(heavy, en)
		}
	}
	lightBulk := e.Thorough()
	nodes, err := c07BuildNodes()
	if err != nil {
		r.Violate(Violation{Key: "macro-text-build", What: "a template assembled from nodes (macro with a text body) cannot be registered or rendered: " + err.Error(), Broken: "C07 (macro text route, node.go renderVariableString)",
			Replay: map[string]any{"kind": "macro-text"}})
		nodes = nil
	}
	if nodes != nil {
		c07NodeFailClosed(e)
	}
	// the value below the escaped expression (hash value / key, array item, filter and function argument, branch …) in
	// every position, one engine per route rendering every input in turn (c07_operands.go)
	operands, err := c07BuildOperands()
	if err != nil {
		r.Violate(Violation{Key: "operand-build", What: "a template of the operand routes cannot be registered: " + err.Error(), Broken: "C07 (every position a filter can be applied)",
			Replay: map[string]any{"kind": "operand"}})
		operands = nil
	}
	cpBatches := 0
	run := func(strs []string, kind string) error {
		var want []string
		if e.Model != nil {
			var err error
			want, _, err = c07Model(e.Model, "escape_reg", strs)
			if err != nil {
				return err
			}
		}
		engs := engines
		if (kind == "byte-pair" || kind == "byte-triple" || kind == "1MiB") && !lightBulk {
			engs = heavy
		}
		c07CheckBatch(e, engs, strs, want, kind)
		// the macro-text route (templates assembled from nodes) on every input kind except the bulk ones
		if kind != "byte-pair" && kind != "byte-triple" || e.Thorough() {
			if nodes != nil && !r.Full() {
				nodes.check(e, strs, want, kind)
			}
		}
		// the operand routes: everything except the bulk (pairs, triples, 1 MiB; code points: the first batch in the quick tier)
		if operands != nil && !r.Full() && kind != "byte-pair" && kind != "byte-triple" && kind != "1MiB" {
			if kind == "code-points" {
				cpBatches++
			}
			if kind != "code-points" || e.Thorough() || cpBatches == 1 {
				if err := operands.check(e, c07Anys(strs), want, kind); err != nil {
					return err
				}
			}
		}
		r.Hit("inputs:" + kind)
		return nil
	}

	// ---- regression corpus ----
	fixed := []string{"", "<", ">", "&", "\"", "'", "<>&\"'", "&amp;", "&amp;amp;", "&lt;script&gt;", "&#39;&#34;&quot;", "a<b>c&d\"e'f", "<script>alert('x')</script>",
		"\xff", "\xff<\xfe", "é<世>😀&", "\xc3<", "\xe4\xb8<\x96", "\xf0\x9f\x98", "&#", "&;", "&&&", "';--", strings.Repeat("<", 300), strings.Repeat("&amp;", 100),
		"\x00<\x00", "  ", "{{ v|e }}", "{% apply escape %}", "\\", "�", "＜＞＆＂＇", "\xed\xa0\x80<", "line1\nline2\r\n<", "\t<\t"}
	if err := run(fixed, "regression"); err != nil {
		return err
	}
	r.Sample(map[string]any{"kind": "route", "route": engines[0].route.name, "input": "a<b>c&d\"e'f"})
	if err := c07CheckFallback(e, fixed, "regression"); err != nil {
		return err
	}
	if r.Full() {
		return nil
	}

	// ---- the same routes written to an io.Writer (c07_writers.go): writers that consume their bytes late, concurrent pipes ----
	if err := c07Writers(e, engines, fixed); err != nil {
		return err
	}
	if r.Full() {
		return nil
	}

	// ---- exhaustive: single bytes and byte pairs ----
	singles := make([]string, 256)
	for i := range singles {
		singles[i] = string([]byte{byte(i)})
	}
	if err := run(singles, "single-byte"); err != nil {
		return err
	}
	if err := c07CheckFallback(e, singles, "single-byte"); err != nil {
		return err
	}
	for hi := 0; hi < 256 && !r.Full(); hi += 32 {
		lightBulk = e.Thorough() || (hi/32)%8 == int(e.Seed%8)
		pairs := make([]string, 0, 32*256)
		for a := hi; a < hi+32; a++ {
			for b2 := 0; b2 < 256; b2++ {
				pairs = append(pairs, string([]byte{byte(a), byte(b2)}))
			}
		}
		if err := run(pairs, "byte-pair"); err != nil {
			return err
		}
		if err := c07CheckFallback(e, pairs, "byte-pair"); err != nil {
			return err
		}
	}
	r.Note("exhaustive: all 256 single bytes and all 65 536 byte pairs through every route and the fallback")
	if r.Full() {
		return nil
	}

	// ---- all triples over the bytes that matter to either routine (entities, reference syntax, UTF-8 lead/continuation classes) ----
	tri := []byte{'<', '>', '&', '"', '\'', '#', ';', 'a', '3', '4', '9', 'q', 0x00, 0x7f, 0x80, 0xbf, 0xc2, 0xe0, 0xa0, 0xed, 0x9f, 0xf0, 0x90, 0xf4}
	if e.Thorough() {
		tri = append(tri, 'm', 'p', 'l', 't', 'g', 'u', 'o', 0xc0, 0xc1, 0xdf, 0xe1, 0xef, 0x8f, 0xf5, 0xff, 0xee)
	}
	var triples []string
	for _, a := range tri {
		for _, b2 := range tri {
			for _, c := range tri {
				triples = append(triples, string([]byte{a, b2, c}))
			}
		}
	}
	lightBulk = e.Thorough()
	for i := 0; i < len(triples) && !r.Full(); i += 8192 {
		j := min(i+8192, len(triples))
		if err := run(triples[i:j], "byte-triple"); err != nil {
			return err
		}
		if err := c07CheckFallback(e, triples[i:j], "byte-triple"); err != nil {
			return err
		}
	}
	r.Note(fmt.Sprintf("all %d triples over a %d-byte alphabet", len(triples), len(tri)))

	// ---- every code point (batched in strings of 4096 scalar values) ----
	var cps []string
	for blk := rune(0); blk < 0x110000; blk += 4096 {
		boundary := blk == 0 || blk == 0x1000 || blk == 0xD000 || blk == 0xE000 || blk == 0xF000 || blk == 0x10000 || blk == 0x10F000
		if e.Thorough() || boundary || (blk/4096)%16 == int32(e.Seed%16) {
			if s := c07CodePoints(blk, blk+4096); s != "" {
				cps = append(cps, s)
			}
		}
	}
	for i := 0; i < len(cps) && !r.Full(); i += 8 {
		j := min(i+8, len(cps))
		if err := run(cps[i:j], "code-points"); err != nil {
			return err
		}
		if err := c07CheckFallback(e, cps[i:j], "code-points"); err != nil {
			return err
		}
	}
	r.Note(fmt.Sprintf("code points: %d blocks of 4096 scalar values", len(cps)))
	if r.Full() {
		return nil
	}

	// ---- random mixes, already-escaped text ----
	n := e.N(1500, 300000)
	for i := 0; i < n && !r.Full(); i += 250 {
		batch := make([]string, 0, 250)
		for k := 0; k < 250; k++ {
			s := c07Rand(e.Rng, 1+e.Rng.Intn(60))
			switch e.Rng.Intn(5) {
			case 0:
				s = html.EscapeString(s) // already escaped once
			case 1:
				s = html.EscapeString(html.EscapeString(s))
			}
			batch = append(batch, s)
		}
		if i == 0 {
			r.Sample(map[string]any{"kind": "random", "input_hex": hx(batch[0])})
		}
		if err := run(batch, "random"); err != nil {
			return err
		}
		if err := c07CheckFallback(e, batch, "random"); err != nil {
			return err
		}
	}
	// ---- long strings ----
	for i := 0; i < e.N(2, 12) && !r.Full(); i++ {
		size := 1 << 20
		if i%2 == 1 {
			size = 1<<20 + 1 + e.Rng.Intn(4096)
		}
		s := c07Rand(e.Rng, size)
		lightBulk = e.Thorough() || i == 0
		if err := run([]string{s}, "1MiB"); err != nil {
			return err
		}
		if err := c07CheckFallback(e, []string{s}, "1MiB"); err != nil {
			return err
		}
	}
	if r.Full() {
		return nil
	}

	// ---- non-string values ----
	vals := c07Values(e.Rng)
	strsOf := make([]string, len(vals))
	for i, v := range vals {
		strsOf[i] = c07ToString(v)
	}
	var want []string
	if e.Model != nil {
		if want, _, err = c07Model(e.Model, "escape_reg", strsOf); err != nil {
			return err
		}
	}
	plain := c07Engine{c07Route{name: "plain", main: "main"}, c07MustEngine(map[string]string{"main": "{{ v }}"})}
	for i, v := range vals {
		exp := html.EscapeString(strsOf[i])
		if want != nil {
			r.Compared++
			if want[i] != exp {
				r.Violate(Violation{Key: "model-vs-stdlib", What: "Escape.escReg differs from html.EscapeString", Broken: "FACT Escape.escTable (trusted: html.EscapeString is this byte-wise replacer)",
					Replay: map[string]any{"kind": "value", "string_hex": hx(strsOf[i]), "model_hex": hx(want[i]), "stdlib_hex": hx(exp)}})
			}
			exp = want[i]
		}
		typ := fmt.Sprintf("%T", v)
		r.Hit("value:" + typ)
		r.Seen("val:"+typ+":"+strsOf[i], true)
		for _, en := range engines {
			out, errs := c07Render(en, v)
			if errs != "" || out != en.route.want(exp) {
				r.Violate(Violation{Key: "value-" + strings.SplitN(en.route.name, ":", 2)[0], What: fmt.Sprintf("route %s on a %s value: output is not escape(toString(v))", en.route.name, typ),
					Broken: "correspondence escape_reg ∘ toString (filterEscape on non-string values)",
					Replay: map[string]any{"kind": "value", "route": en.route.name, "type": typ, "value": fmt.Sprintf("%#v", v), "tostring_hex": hx(strsOf[i]), "impl_hex": c07Short(out), "impl_err": errs, "want_hex": c07Short(en.route.want(exp))}})
				break
			}
		}
		// implementation-only: escaping the value is escaping what the print tag writes for it (where print and the filter
		// convert alike: everything except float32, whose two conversions differ by design of the code)
		if _, isF32 := v.(float32); !isF32 {
			printed, errs := c07Render(plain, v)
			out, _ := c07Render(engines[0], v)
			if errs == "" && out != html.EscapeString(printed) {
				r.Violate(Violation{Key: "value-print", What: fmt.Sprintf("{{ v|e }} is not the escaped form of what {{ v }} prints for a %s value", typ), Broken: "C07 on non-string values (implementation-only oracle)",
					Replay: map[string]any{"kind": "value", "type": typ, "value": fmt.Sprintf("%#v", v), "printed_hex": hx(printed), "escaped_hex": hx(out)}})
			}
		}
		if r.Full() {
			return nil
		}
	}
	// the same values as macro arguments interpolated into macro body text
	if nodes != nil && !r.Full() {
		nodes.checkValues(e, vals, strsOf, want, "value")
	}
	// the same values below the escaped expression
	if operands != nil && !r.Full() {
		if err := operands.check(e, vals, want, "value"); err != nil {
			return err
		}
	}
	// does the print tag escape on its own? (recorded, not required by C07)
	if out, _ := c07Render(plain, "<"); out == "<" {
		r.Note("print tag does not auto-escape on a twig.New() engine: {{ v }} writes the value as it is")
	} else {
		r.Note("print tag output for \"<\" is " + strconv.Quote(out))
	}
	// macro text route (node.go renderVariableString): probe whether literal `{{ … }}` text inside a macro body is interpolated
	probe := c07MustEngine(map[string]string{"main": "{% macro m(x) %}\\{{ x|e }}|{% verbatim %}{{ x|e }}{% endverbatim %}{% endmacro %}{{ _self.m(v) }}"})
	if out, errs := c07Render(c07Engine{c07Route{main: "main"}, probe}, "<&>"); errs == "" {
		switch {
		case strings.Contains(out, "<&>"):
			r.Violate(Violation{Key: "macro-text-unescaped", What: "literal tag text inside a macro body is interpolated without the requested filter", Broken: "C07 (macro text route, node.go renderVariableString)",
				Replay: map[string]any{"kind": "macro-text", "out_hex": hx(out)}})
		case strings.Contains(out, "&lt;&amp;&gt;"):
			r.Note("macro text route is live: literal `{{ x|e }}` text in a macro body is interpolated (and escaped): " + strconv.Quote(out))
		default:
			r.Note("macro text route (renderVariableString) not reached by escaped or verbatim tag text in a macro body: " + strconv.Quote(out))
		}
	}
	return nil
}

func c07MustEngine(tpls map[string]string) *twig.Engine {
	e, err := newEngine(tpls)
	if err != nil {
		panic(err)
	}
	return e
}

func c07OtherEngineOverrides() {
	guarded(func() (string, error) {
		x := twig.New()
		id := func(v interface{}, a ...interface{}) (interface{}, error) { return v, nil }
		for _, n := range []string{"e", "escape", "raw", "upper"} {
			x.AddFilter(n, id)
		}
		x.RegisterString("t", "{{ v|e }}{{ v|escape }}{% apply escape %}{{ v }}{% endapply %}")
		return x.Render("t", map[string]interface{}{"v": "<&>"})
	})
}

// c07Expect: a route that escapes twice yields the escape of the escaped text (the byte-wise replacer applied again)
func c07Expect(en c07Engine, escaped string) string {
	if en.route.twice {
		return html.EscapeString(escaped)
	}
	return escaped
}
