// Package main is the correspondence and violation-search harness: it runs the real twig code
// in-process on generated cases, sends the same cases to the Lean model driver (twigmodel) over a
// JSON line protocol, and compares canonicalised results.  One binary serves all properties:
//
//	harness -prop C14 -tier quick -seed 1 -model <path to twigmodel> -out <report.json> -replays <dir>
//
// Everything random derives from -seed.  The report is merged into evidence/<id>.json by ../check.
package main

import (
	"bufio"
	"crypto/sha1"
	"encoding/hex"
	"encoding/json"
	"flag"
	"fmt"
	"io"
	"math/rand"
	"os"
	"os/exec"
	"path/filepath"
	"sort"
	"time"
)

// ---- model client ----------------------------------------------------------------------------

type Model struct {
	cmd   *exec.Cmd
	in    *bufio.Writer
	out   *bufio.Reader
	calls int
}

func StartModel(path string) (*Model, error) {
	// deep structural recursion on long byte lists needs a large stack
	cmd := exec.Command("sh", "-c", "ulimit -s unlimited 2>/dev/null || ulimit -s 1000000 2>/dev/null; exec \"$0\"", path)
	stdin, err := cmd.StdinPipe()
	if err != nil {
		return nil, err
	}
	stdout, err := cmd.StdoutPipe()
	if err != nil {
		return nil, err
	}
	cmd.Stderr = os.Stderr
	if err := cmd.Start(); err != nil {
		return nil, err
	}
	return &Model{cmd: cmd, in: bufio.NewWriterSize(stdin, 1<<20), out: bufio.NewReaderSize(stdout, 1<<20)}, nil
}

// Call sends one request and reads one answer. A protocol failure is fatal for the run: the
// correspondence cannot be established, which the caller reports as such.
func (m *Model) Call(req map[string]any) (map[string]any, error) {
	b, err := json.Marshal(req)
	if err != nil {
		return nil, err
	}
	m.in.Write(b)
	m.in.WriteByte('\n')
	if err := m.in.Flush(); err != nil {
		return nil, fmt.Errorf("model write: %w", err)
	}
	line, err := m.out.ReadBytes('\n')
	if err != nil {
		return nil, fmt.Errorf("model read: %w", err)
	}
	m.calls++
	var resp map[string]any
	if err := json.Unmarshal(line, &resp); err != nil {
		return nil, fmt.Errorf("model answer not JSON: %q", truncate(string(line), 200))
	}
	if bad, ok := resp["bad"]; ok {
		return nil, fmt.Errorf("model rejected request: %v", bad)
	}
	return resp, nil
}

func (m *Model) Close() {
	if m == nil {
		return
	}
	m.in.Flush()
	if c, ok := m.cmd.Stdin.(io.Closer); ok {
		c.Close()
	}
	done := make(chan struct{})
	go func() { m.cmd.Wait(); close(done) }()
	select {
	case <-done:
	case <-time.After(2 * time.Second):
		m.cmd.Process.Kill()
	}
}

func truncate(s string, n int) string {
	if len(s) <= n {
		return s
	}
	return s[:n] + "…"
}

func hx(s string) string { return hex.EncodeToString([]byte(s)) }
func unhx(s string) string {
	b, err := hex.DecodeString(s)
	if err != nil {
		return "<bad hex " + s + ">"
	}
	return string(b)
}

// ---- report ----------------------------------------------------------------------------------

type Violation struct {
	Key    string         `json:"key"`    // signature used to match known findings
	What   string         `json:"what"`   // one line
	Broken string         `json:"broken"` // theorem / correspondence that no longer checks
	Replay map[string]any `json:"replay"`
}

type Report struct {
	Property      string         `json:"property"`
	Tier          string         `json:"tier"`
	Seed          int64          `json:"seed"`
	Evaluations   int            `json:"evaluations"`
	Distinct      int            `json:"distinct_nontrivial"`
	Rule          string         `json:"rule"`
	Samples       []any          `json:"samples"`
	ModelCalls    int            `json:"model_calls"`
	Compared      int            `json:"traces_validated_against_impl"`
	Skipped       map[string]int `json:"skipped"`
	Dist          map[string]int `json:"distribution"`
	Exhaustive    bool           `json:"exhaustive"`
	Violations    []Violation    `json:"violations"`
	Notes         []string       `json:"notes"`
	WallS         float64        `json:"wall_s"`
	distinct      map[string]struct{}
	maxViolations int
}

func NewReport(prop, tier string, seed int64) *Report {
	return &Report{Property: prop, Tier: tier, Seed: seed, Skipped: map[string]int{}, Dist: map[string]int{},
		distinct: map[string]struct{}{}, maxViolations: 5, Violations: []Violation{}, Samples: []any{}, Notes: []string{}}
}

// Seen counts one evaluated case; nontrivial cases are counted once per distinct canonical form.
func (r *Report) Seen(canon string, nontrivial bool) {
	r.Evaluations++
	if nontrivial {
		h := sha1.Sum([]byte(canon))
		r.distinct[string(h[:8])] = struct{}{}
	}
}
func (r *Report) Sample(v any) {
	if len(r.Samples) < 6 {
		r.Samples = append(r.Samples, v)
	}
}
func (r *Report) Hit(k string)  { r.Dist[k]++ }
func (r *Report) Skip(k string) { r.Skipped[k]++ }
func (r *Report) Note(s string) { r.Notes = append(r.Notes, s) }
func (r *Report) Violate(v Violation) bool {
	for _, o := range r.Violations {
		if o.Key == v.Key && o.What == v.What {
			return len(r.Violations) >= r.maxViolations
		}
	}
	r.Violations = append(r.Violations, v)
	return len(r.Violations) >= r.maxViolations
}
func (r *Report) Full() bool { return len(r.Violations) >= r.maxViolations }

// ---- run configuration -------------------------------------------------------------------------

type Env struct {
	Prop    string
	Tier    string
	Seed    int64
	Rng     *rand.Rand
	Model   *Model
	Rep     *Report
	Replays string
	Self    string // path of this binary (child processes for pristine-process oracles)
	Repo    string
	Replay  string // when set: replay this file instead of generating
}

func (e *Env) Thorough() bool { return e.Tier == "thorough" }

// N picks a budget by tier.
func (e *Env) N(quick, thorough int) int {
	if e.Thorough() {
		return thorough
	}
	return quick
}

type runner func(e *Env) error

var runners = map[string]runner{}

func register(prop string, f runner) { runners[prop] = f }

func main() {
	prop := flag.String("prop", "", "property id")
	tier := flag.String("tier", "quick", "quick|thorough")
	seed := flag.Int64("seed", 1, "seed")
	modelPath := flag.String("model", "", "path to twigmodel")
	out := flag.String("out", "", "report file")
	replays := flag.String("replays", "", "replay directory")
	replay := flag.String("replay", "", "replay one recorded case")
	child := flag.String("child", "", "internal: child-process oracle")
	repo := flag.String("repo", "/repo", "repository root")
	flag.Parse()

	if *child != "" {
		os.Exit(runChild(*child, flag.Args()))
	}
	f, ok := runners[*prop]
	if !ok {
		var ids []string
		for k := range runners {
			ids = append(ids, k)
		}
		sort.Strings(ids)
		fmt.Fprintf(os.Stderr, "unknown property %q; have %v\n", *prop, ids)
		os.Exit(2)
	}
	self, _ := os.Executable()
	self, _ = filepath.Abs(self)
	env := &Env{Prop: *prop, Tier: *tier, Seed: *seed, Rng: rand.New(rand.NewSource(*seed)),
		Rep: NewReport(*prop, *tier, *seed), Replays: *replays, Self: self, Repo: *repo, Replay: *replay}
	if *modelPath != "" {
		m, err := StartModel(*modelPath)
		if err != nil {
			fmt.Fprintln(os.Stderr, "cannot start model:", err)
			os.Exit(2)
		}
		env.Model = m
		defer m.Close()
	}
	if *out != "" {
		crumbFile, _ = os.OpenFile(*out+".current", os.O_CREATE|os.O_RDWR|os.O_TRUNC, 0o644)
	}
	if env.Replay != "" {
		if st := genericReplay(env); st >= 0 {
			if env.Model != nil {
				env.Model.Close()
			}
			os.Exit(st)
		}
	}
	start := time.Now()
	err := f(env)
	if crumbFile != nil {
		crumbFile.Close()
		os.Remove(*out + ".current")
	}
	env.Rep.WallS = time.Since(start).Seconds()
	env.Rep.Distinct = len(env.Rep.distinct)
	if env.Model != nil {
		env.Rep.ModelCalls = env.Model.calls
	}
	if err != nil {
		// an infrastructure failure (model died, protocol error): the correspondence is not established
		env.Rep.Violate(Violation{Key: "harness-error", What: err.Error(), Broken: "correspondence " + *prop + " could not be run",
			Replay: map[string]any{"error": err.Error()}})
	}
	if *out != "" {
		b, _ := json.MarshalIndent(env.Rep, "", " ")
		os.WriteFile(*out, b, 0o644)
	}
	if len(env.Rep.Violations) > 0 {
		os.Exit(1)
	}
}

// The input the real engine is about to run is left in <report>.current: when the engine takes the whole process down
// (a Go stack overflow or another fatal error cannot be recovered), `check` reports that input as the failing one.
var crumbFile *os.File

func breadcrumb(kind string, payload map[string]any) {
	if crumbFile == nil {
		return
	}
	payload["kind"] = kind
	b, err := json.Marshal(payload)
	if err != nil {
		return
	}
	crumbFile.Truncate(0)
	crumbFile.WriteAt(b, 0)
}

// child-process oracles register here
var children = map[string]func(args []string) int{}

func runChild(name string, args []string) int {
	f, ok := children[name]
	if !ok {
		fmt.Fprintln(os.Stderr, "unknown child", name)
		return 2
	}
	return f(args)
}
