package main

import (
	"errors"
	"fmt"
	"sort"
	"strings"

	"github.com/semihalev/twig"
)

// A Case is one render of a set of templates: what both the real engine and the Lean model execute.
type Case struct {
	Templates    map[string]string
	Main         string
	Ctx          map[string]any
	Policy       *PolicySpec    // nil = no security policy on the engine
	SpyFilters   []string       // user filters: identity, recorded
	SpyFunctions []string       // user functions: return their own name, recorded
	SpyTests     []string       // user tests: true, recorded
	FailAt       int            // index of the spy invocation that fails (-1 = none)
	Facts        string         // "" / "fixed" / "pinned": which sandbox facts the MODEL uses (regression instances)
	Config       string         // "" (default) | "cache-off" | "dev" | "auto-reload": engine settings applied before registration
	Prime        string         // a template parsed on a throwaway engine right before this case (pooled tokenizers/parsers are reused)
	Globals      map[string]any // engine globals (AddGlobal); the model has none: used by the shadowing oracle only
	Route        *renderRoute   // nil = Engine.Render; otherwise the top-level entry point and writer kind the render goes through (c17_routes.go)
}

type PolicySpec struct {
	Filters   []string
	Functions []string
}

type Ev struct {
	Kind string
	Name string
}

type Outcome struct {
	Out         string
	Class       string // "", parse, notFound, security, render, panic, timeout
	Causes      []int
	Spies       []Ev // spy invocations in order
	Unsupported string
	Fuel        bool
	Msg         string
	Panic       string
}

type spyErr struct{ n int }

func (e *spyErr) Error() string { return fmt.Sprintf("spy invocation %d failed", e.n) }

func mapClass(c string) string {
	switch c {
	case "parse-error":
		return "parse"
	case "not-found":
		return "notFound"
	case "render-error":
		return "render"
	}
	return c
}

// runImpl executes the case on a fresh real engine.
func runImpl(c *Case) Outcome {
	var spies []Ev
	count := 0
	var o Outcome
	lastEngine = nil
	if crumbFile != nil {
		tp := map[string]any{}
		for k, v := range c.Templates {
			tp[k] = v
		}
		breadcrumb("render", map[string]any{"templates": tp, "main": c.Main, "ctx": fmt.Sprint(c.Ctx), "prime": c.Prime})
	}
	res := guarded(func() (string, error) {
		e := twig.New()
		if c.Policy != nil {
			p := &twig.DefaultSecurityPolicy{AllowedFilters: map[string]bool{}, AllowedFunctions: map[string]bool{}, AllowedTags: map[string]bool{}}
			for _, f := range c.Policy.Filters {
				p.AllowedFilters[f] = true
			}
			for _, f := range c.Policy.Functions {
				p.AllowedFunctions[f] = true
			}
			e.EnableSandbox(p)
		}
		hit := func(kind, name string) error {
			n := count
			count++
			spies = append(spies, Ev{kind, name})
			if n == c.FailAt {
				return &spyErr{n}
			}
			return nil
		}
		for _, f := range c.SpyFilters {
			name := f
			e.AddFilter(name, func(v interface{}, args ...interface{}) (interface{}, error) {
				if err := hit("filter", name); err != nil {
					return nil, err
				}
				return v, nil
			})
		}
		for _, f := range c.SpyFunctions {
			name := f
			e.AddFunction(name, func(args ...interface{}) (interface{}, error) {
				if err := hit("function", name); err != nil {
					return nil, err
				}
				return name, nil
			})
		}
		for _, f := range c.SpyTests {
			name := f
			e.AddTest(name, func(v interface{}, args ...interface{}) (bool, error) {
				if err := hit("test", name); err != nil {
					return false, err
				}
				return true, nil
			})
		}
		switch c.Config {
		case "cache-off":
			e.SetCache(false)
		case "dev":
			e.SetDevelopmentMode(true)
		case "auto-reload":
			e.SetAutoReload(true)
		}
		for _, g := range sortedKeys(c.Globals) {
			e.AddGlobal(g, deepCopy(c.Globals[g])) // every engine gets its own copy: what one engine does to a global stays there
		}
		names := sortedKeys(c.Templates)
		if c.Prime != "" {
			// the main template is parsed last, right after the priming template
			var rest []string
			for _, n := range names {
				if n != c.Main {
					rest = append(rest, n)
				}
			}
			names = rest
		}
		for _, n := range names {
			if err := e.RegisterString(n, c.Templates[n]); err != nil {
				return "", fmt.Errorf("parsing error: %w", err)
			}
		}
		if c.Prime != "" {
			twig.New().RegisterString("prime", c.Prime) // its outcome is irrelevant; what it leaves in the pools is not
			if err := e.RegisterString(c.Main, c.Templates[c.Main]); err != nil {
				return "", fmt.Errorf("parsing error: %w", err)
			}
		}
		ctx, _ := deepCopy(map[string]interface{}(c.Ctx)).(map[string]interface{})
		lastEngine = e
		if c.Route != nil {
			return c.Route.render(e, c.Main, ctx)
		}
		return e.Render(c.Main, ctx)
	})
	o.Out, o.Class, o.Panic, o.Spies = res.Out, mapClass(res.Class), res.Panic, spies
	if res.Err != nil {
		o.Msg = res.Err.Error()
		var se *spyErr
		if errors.As(res.Err, &se) {
			o.Causes = []int{se.n}
		}
	}
	return o
}

func (c *Case) request() map[string]any {
	names := sortedKeys(c.Templates)
	tpls := make([]any, len(names))
	for i, n := range names {
		tpls[i] = []any{hx(n), hx(c.Templates[n])}
	}
	req := map[string]any{"op": "render", "templates": tpls, "main": hx(c.Main), "ctx": valJSON(map[string]interface{}(c.Ctx))}
	if c.Policy != nil {
		req["policy"] = map[string]any{"filters": hexAll(c.Policy.Filters), "functions": hexAll(c.Policy.Functions)}
	}
	req["spy"] = map[string]any{"filters": hexAll(c.SpyFilters), "functions": hexAll(c.SpyFunctions), "tests": hexAll(c.SpyTests)}
	if c.FailAt >= 0 {
		req["failAt"] = c.FailAt
	}
	if c.Facts != "" {
		req["facts"] = c.Facts
	}
	if len(c.Globals) > 0 {
		req["globals"] = valJSON(map[string]interface{}(c.Globals))
	}
	return req
}

func hexAll(xs []string) []any {
	out := make([]any, len(xs))
	for i, x := range xs {
		out[i] = hx(x)
	}
	return out
}

// ModelOutcome additionally carries the full trace with the ghost flag.
type ModelEv struct {
	Kind   string
	Name   string
	Inside bool
	Spy    bool
}

func runModel(m *Model, c *Case) (Outcome, []ModelEv, error) {
	resp, err := m.Call(c.request())
	if err != nil {
		return Outcome{}, nil, err
	}
	var o Outcome
	if u, ok := resp["unsupported"].(string); ok {
		o.Unsupported = u
		return o, nil, nil
	}
	if _, ok := resp["fuel"]; ok {
		o.Fuel = true
		return o, nil, nil
	}
	if cls, ok := resp["err"].(string); ok {
		o.Class = cls
		o.Msg, _ = resp["msg"].(string)
		if cs, ok := resp["causes"].([]any); ok {
			for _, x := range cs {
				o.Causes = append(o.Causes, int(x.(float64)))
			}
		}
		return o, nil, nil
	}
	o.Out = unhx(resp["out"].(string))
	var trace []ModelEv
	if tr, ok := resp["trace"].([]any); ok {
		for _, t := range tr {
			p := t.([]any)
			ev := ModelEv{p[0].(string), unhx(p[1].(string)), p[2].(bool), p[3].(bool)}
			trace = append(trace, ev)
			if ev.Spy {
				o.Spies = append(o.Spies, Ev{ev.Kind, ev.Name})
			}
		}
	}
	return o, trace, nil
}

func sameInts(a, b []int) bool {
	if len(a) != len(b) {
		return false
	}
	for i := range a {
		if a[i] != b[i] {
			return false
		}
	}
	return true
}

func sameEvs(a, b []Ev) bool {
	if len(a) != len(b) {
		return false
	}
	for i := range a {
		if a[i] != b[i] {
			return false
		}
	}
	return true
}

// agree compares implementation and model outcomes in canonical form. On success the spy traces are
// compared too (on failure the Go side has recorded invocations up to the failure, the model none).
func agree(im, mo Outcome) (bool, string) {
	if im.Class != mo.Class {
		return false, fmt.Sprintf("error class: impl %q (%s) model %q (%s)", im.Class, truncate(im.Msg, 120), mo.Class, mo.Msg)
	}
	if im.Class == "" {
		if im.Out != mo.Out {
			return false, fmt.Sprintf("output: impl %q model %q", truncate(im.Out, 200), truncate(mo.Out, 200))
		}
		if !sameEvs(im.Spies, mo.Spies) {
			return false, fmt.Sprintf("callback invocations: impl %v model %v", im.Spies, mo.Spies)
		}
		return true, ""
	}
	if !sameInts(im.Causes, mo.Causes) {
		return false, fmt.Sprintf("error causes: impl %v model %v", im.Causes, mo.Causes)
	}
	return true, ""
}

func (c *Case) replay(im, mo Outcome) map[string]any {
	tpls := map[string]any{}
	for k, v := range c.Templates {
		tpls[k] = v
	}
	r := map[string]any{"kind": "render", "templates": tpls, "main": c.Main, "ctx": c.Ctx, "request": c.request(),
		"impl":  map[string]any{"out": im.Out, "class": im.Class, "msg": im.Msg, "causes": im.Causes, "spies": fmt.Sprint(im.Spies), "panic": im.Panic},
		"model": map[string]any{"out": mo.Out, "class": mo.Class, "msg": mo.Msg, "causes": mo.Causes, "spies": fmt.Sprint(mo.Spies), "unsupported": mo.Unsupported}}
	if c.Route != nil {
		r["route"] = c.Route.name
	}
	return r
}

// CompareCase runs one case on both sides and reports a disagreement as a violation of the
// correspondence `what`. Returns (model outcome usable, continue?).
// primers: templates parsed on a throwaway engine right before a case's main template — well-formed ones ending in a
// trimming delimiter and ones whose tokenization or parse FAILS half-way (what a failed operation leaves behind in
// the pooled tokenizers, parsers and contexts must not reach the next template)
var primers = []string{"x {{ 1 -}}", "{% set z = 1 -%}", "a {#- c -#}", "{{- 1 -}}", "{% if 1 -%}", "  a  {{- b -}}  c  {{- d", " x {%- if y -%} z {{- w -}} ", "{% block content %}{% block main %}{{ x -}} {% endblock",
	"{% block content %}a{% endblock %}{% block content %}b{% endblock %}", "{% macro m(a) %}{{ a }}{% endmacro %}{% macro input(x) %}{% if", "{{ a && b >= c <= d != e }}", "{% for i in xs -%} {{- i -}} {%- endfor %}{{ 1 +", "{#- never closed"}
var primeTick int

func compareCase(e *Env, c *Case, key, broken string) (im Outcome, mo Outcome, ok bool, err error) {
	primeTick++
	if c.Prime == "" && primeTick%3 == 0 {
		if _, hasMain := c.Templates[c.Main]; hasMain {
			c.Prime = primers[(primeTick/3)%len(primers)]
			e.Rep.Hit("primed")
		}
	}
	if primeTick%5 == 0 {
		otherEngineOverrides()
	}
	im = runImpl(c)
	checkRetained(e, im.Out)
	sentinelCheck(e)
	rerenderRetained(e, c, im)
	if im.Class == "panic" || im.Class == "timeout" {
		e.Rep.Violate(Violation{Key: "panic-or-hang", What: fmt.Sprintf("rendering %s: %s", im.Class, truncate(im.Panic, 200)),
			Broken: "C05: no template source or context value makes the engine panic or hang", Replay: c.replay(im, Outcome{})})
		return im, mo, false, nil
	}
	if e.Model == nil {
		return im, mo, false, nil
	}
	mo, _, err = runModel(e.Model, c)
	if err != nil {
		return im, mo, false, err
	}
	if mo.Unsupported != "" {
		e.Rep.Skip("unsupported: " + mo.Unsupported)
		return im, mo, false, nil
	}
	if mo.Fuel {
		e.Rep.Skip("model out of fuel")
		return im, mo, false, nil
	}
	e.Rep.Compared++
	if same, why := agree(im, mo); !same {
		e.Rep.Violate(Violation{Key: key, What: "model and implementation disagree: " + why, Broken: broken, Replay: c.replay(im, mo)})
		return im, mo, false, nil
	}
	shadowOracle(e, c, im)
	configAndPerturbOracle(e, c, im)
	return im, mo, true, nil
}

// configAndPerturbOracle (implementation-only, every fifth case):
//   - the same templates on engines with the cache off / development mode / auto-reload, each rendered three times:
//     every render equals the default engine's (these settings choose where a template comes from, not what it means);
//   - the engine is rendered with the case's context, then with a PERTURBED context (numbers + 1, strings with a
//     suffix, lists reversed and extended), then compared with a fresh engine rendering the perturbed context: nothing
//     computed from the first context (a folded constant, a memoised default, a cached sequence) may survive.
var cfgTick int

// forceOracles makes the sampled oracles of compareCase run on every case (set around hand-written corpora)
var forceOracles bool

func perturb(v any) any {
	switch x := v.(type) {
	case int:
		return x + 1
	case string:
		return x + "~"
	case bool:
		return !x
	case nil:
		return "was-nil"
	case []interface{}:
		out := make([]interface{}, 0, len(x)+1)
		for i := len(x) - 1; i >= 0; i-- {
			out = append(out, perturb(x[i]))
		}
		return append(out, "extra")
	case map[string]interface{}:
		out := map[string]interface{}{}
		for k, e := range x {
			out[k] = perturb(e)
		}
		return out
	}
	return v
}

func configAndPerturbOracle(e *Env, c *Case, im Outcome) {
	cfgTick++
	if (cfgTick%5 != 0 && !forceOracles) || c.FailAt >= 0 || c.Config != "" || len(c.SpyFilters)+len(c.SpyFunctions)+len(c.SpyTests) > 0 || im.Class == "panic" || im.Class == "timeout" {
		return
	}
	for _, cfg := range []string{"cache-off", "dev", "auto-reload"} {
		c2 := *c
		c2.Config = cfg
		first := runImpl(&c2)
		eng := lastEngine
		bad := first.Class != im.Class || first.Out != im.Out
		got := first
		for k := 0; k < 2 && !bad && eng != nil; k++ {
			res := guarded(func() (string, error) {
				ctx, _ := deepCopy(map[string]interface{}(c.Ctx)).(map[string]interface{})
				return eng.Render(c.Main, ctx)
			})
			got = Outcome{Out: res.Out, Class: mapClass(res.Class)}
			bad = got.Class != im.Class || got.Out != im.Out
		}
		e.Rep.Hit("engine-config:" + cfg)
		if bad {
			rp := c.replay(im, got)
			rp["config"] = cfg
			e.Rep.Violate(Violation{Key: "engine-setting-changes-output", What: fmt.Sprintf("with %s the same templates and context render %q (%s), with the default settings %q (%s)", cfg, truncate(got.Out, 120), got.Class, truncate(im.Out, 120), im.Class),
				Broken: "theorem C01_history_independence / C15: cache and reload settings do not change what a registered template renders (implementation-only oracle)", Replay: rp})
			break
		}
	}
	sameContextTwice(e, c, im)
	multiEntryOracle(e, c, im)
	// perturbed context on a warm engine vs on a fresh one
	p := map[string]any{}
	for k, v := range c.Ctx {
		p[k] = perturb(v)
	}
	c3 := *c
	c3.Ctx = p
	fresh := runImpl(&c3)
	runImpl(c)
	eng := lastEngine
	if eng == nil {
		return
	}
	res := guarded(func() (string, error) {
		ctx, _ := deepCopy(map[string]interface{}(p)).(map[string]interface{})
		return eng.Render(c.Main, ctx)
	})
	e.Rep.Hit("rerender-with-other-context")
	if mapClass(res.Class) != fresh.Class || res.Out != fresh.Out {
		rp := c3.replay(fresh, Outcome{Out: res.Out, Class: mapClass(res.Class)})
		rp["first_ctx"] = fmt.Sprint(c.Ctx)
		e.Rep.Violate(Violation{Key: "earlier-template-changed", What: fmt.Sprintf("an engine that has rendered the template with one context renders it with another context as %q (%s); a fresh engine gives %q (%s)", truncate(res.Out, 120), res.Class, truncate(fresh.Out, 120), fresh.Class),
			Broken: "theorem C01_history_independence (nothing computed from an earlier context survives in the template; implementation-only oracle)", Replay: rp})
	}
}

// shadowOracle: engine globals named like the keys of the render context change nothing — wherever a template of
// the case reads such a name (a loop body, an included or extended template, a macro) the context value is found
// first. Run for every fourth case.
var shadowTick int

func shadowOracle(e *Env, c *Case, im Outcome) {
	shadowTick++
	if shadowTick%4 != 0 || len(c.Ctx) == 0 || c.Globals != nil {
		return
	}
	for _, t := range c.Templates {
		if strings.Contains(t, "only") {
			return // `only` hides the context from the included template; globals stay visible there, as in Twig
		}
	}
	c2 := *c
	c2.Globals = map[string]any{}
	for k := range c.Ctx {
		c2.Globals[k] = "GLOBAL-" + k
	}
	im2 := runImpl(&c2)
	e.Rep.Hit("globals-shadowed-by-context")
	if e.Model != nil {
		// the model has engine globals too (Env.globals): it must agree on the run with globals
		if mo2, _, err := runModel(e.Model, &c2); err == nil && mo2.Unsupported == "" && !mo2.Fuel {
			e.Rep.Compared++
			if same, why := agree(im2, mo2); !same {
				e.Rep.Violate(Violation{Key: "render-model-globals", What: "model and implementation disagree on a render with engine globals: " + why,
					Broken: "correspondence render (TwigModel.Render with Env.globals vs the real engine with AddGlobal)", Replay: c2.replay(im2, mo2)})
			}
		}
	}
	// globals that ARE visible: names the generators leave undefined, bind late (set, loop variables) or pass with
	// `with`; here only the model can say what the right output is
	if e.Model != nil {
		c3 := *c
		c3.Globals = map[string]any{}
		for _, k := range []string{"a", "b", "c", "d", "p", "q", "undefinedvar", "leak", "zz", "x1", "v", "item", "k", "idx", "i1", "i2", "g", "who"} {
			if _, inCtx := c.Ctx[k]; !inCtx {
				c3.Globals[k] = "G-" + k
			}
		}
		im3 := runImpl(&c3)
		if mo3, _, err := runModel(e.Model, &c3); err == nil && mo3.Unsupported == "" && !mo3.Fuel {
			e.Rep.Compared++
			e.Rep.Hit("globals-visible")
			if same, why := agree(im3, mo3); !same {
				e.Rep.Violate(Violation{Key: "render-model-globals", What: "model and implementation disagree on a render with engine globals: " + why,
					Broken: "correspondence render (TwigModel.Render with Env.globals vs the real engine with AddGlobal)", Replay: c3.replay(im3, mo3)})
			}
		}
	}
	if im2.Class != im.Class || im2.Out != im.Out || !sameEvs(im2.Spies, im.Spies) {
		rp := c.replay(im, im2)
		rp["globals"] = c2.Globals
		e.Rep.Violate(Violation{Key: "global-shadows-context-variable", What: fmt.Sprintf("registering engine globals named like the context keys changes the result: %q (%s) without, %q (%s) with", truncate(im.Out, 160), im.Class, truncate(im2.Out, 160), im2.Class),
			Broken: "theorem C11_visibility / C09_set_visible / C10 block context: variables are found in the context chain (implementation-only oracle: engine globals are not modelled; a context value shadows a global)",
			Replay: rp})
	}
}

// The results of the last renders are kept (the very strings the engine returned) next to private copies taken
// at once: a result must not change after it was handed out, whatever is rendered later.
type retainedOut struct{ got, copyOf string }

var retainRing []retainedOut

func checkRetained(e *Env, out string) {
	for i, x := range retainRing {
		if x.got != x.copyOf {
			e.Rep.Violate(Violation{Key: "earlier-output-overwritten", What: fmt.Sprintf("a string returned by an earlier Render changed while later templates were rendered: was %q, is now %q", truncate(x.copyOf, 120), truncate(x.got, 120)),
				Broken: "theorem C01_history_independence / C04_chunks: the rendered bytes are a function of template and context (implementation-only oracle: returned strings are immutable)",
				Replay: map[string]any{"kind": "retained", "was_hex": hx(x.copyOf), "now_hex": hx(x.got), "renders_since": len(retainRing) - i}})
			retainRing = nil
			break
		}
	}
	if out != "" {
		retainRing = append(retainRing, retainedOut{out, strings.Clone(out)})
		if len(retainRing) > 48 {
			retainRing = retainRing[1:]
		}
	}
}

// The sentinel engine is created once per harness run and holds templates that use every operator spelling, blocks,
// macros, includes and whitespace control. It is rendered again and again while thousands of other templates are
// parsed and rendered on other engines: what it renders must never change (parsed templates own their strings,
// nodes and tables; nothing a later parse does may reach into them).
var sentinel struct {
	eng  *twig.Engine
	want map[string]string
	tick int
}

var sentinelCtx = map[string]interface{}{"t": true, "u": true, "f": false, "n": 3, "xs": []interface{}{1, 2}, "name": "<n>"}

func sentinelRender(name string) string {
	res := guarded(func() (string, error) { return sentinel.eng.Render(name, sentinelCtx) })
	if res.Err != nil {
		return "<" + res.Class + ": " + res.Err.Error() + ">"
	}
	return res.Class + res.Out
}

func sentinelCheck(e *Env) {
	if sentinel.eng == nil {
		sentinel.eng = twig.New()
		tpls := map[string]string{
			"s_ops":   "{% if t && u %}A{% endif %}{% if f or t %}B{% endif %}{{ n >= 2 }}{{ n <= 2 }}{{ n != 2 }}{{ n == 3 }}{{ 'a' ~ 'b' }}{{ t and u }}{{ f or t }}{{ not f }}{{ 1 in xs }}{{ 5 not in xs }}{{ 'ab' starts with 'a' }}{{ 'ab' ends with 'b' }}{{ n is odd }}{{ n is not even }}{{ name|e }}{{ name|upper }}{{ name|lower|length }}{{ range(1, 3)|join(',') }}{{ xs|first }}{{ nosuch|default('d') }}{{ n is even }}{{ t ? 'y' : 'n' }}{{ xs|length > 1 && n < 9 }}",
			"s_base":  "<{% block content %}base{% endblock %}|{% block main %}m{% endblock %}>",
			"s_child": "{% extends 's_base' %}{% block content %}[{{ parent() }}]{% endblock %}",
			"s_macro": "{% macro input(x, y = 2) %}I{{ x }}{{ y }}{% endmacro %}{% macro field(z) %}F{{ z }}{% endmacro %}{{ input(1) }}{{ _self.field(n) }}{% import 's_lib' as lib %}{{ lib.input('q') }}",
			"s_lib":   "{% macro input(a) %}L{{ a }}{% endmacro %}",
			"s_ws":    " a {{- n -}} b {%- if t -%} c {%- endif %} d {#- x -#} e ",
			"s_inc":   "{% for i in xs %}{% include 's_part' with {'k': i} %}{% endfor %}",
			"s_part":  "({{ k }}{{ n }})",
		}
		sentinel.want = map[string]string{}
		for _, n := range sortedKeys(tpls) {
			if err := sentinel.eng.RegisterString(n, tpls[n]); err != nil {
				sentinel.want[n] = "<register: " + err.Error() + ">"
			}
		}
		for _, n := range sortedKeys(tpls) {
			if _, bad := sentinel.want[n]; !bad {
				sentinel.want[n] = sentinelRender(n)
			}
		}
		return
	}
	sentinel.tick++
	if sentinel.tick%7 != 0 {
		return
	}
	e.Rep.Hit("sentinel-engine-rerendered")
	for _, n := range sortedKeys(sentinel.want) {
		if strings.HasPrefix(sentinel.want[n], "<register") {
			continue
		}
		if got := sentinelRender(n); got != sentinel.want[n] {
			e.Rep.Violate(Violation{Key: "earlier-template-changed", What: fmt.Sprintf("template %q of an engine created at the start of the run rendered %q then and renders %q now, after %d other templates were parsed and rendered on other engines", n, truncate(sentinel.want[n], 120), truncate(got, 160), sentinel.tick),
				Broken: "theorem C01_history_independence (a registered template renders the same whatever is parsed or rendered later; implementation-only oracle)",
				Replay: map[string]any{"kind": "sentinel", "template": n, "first": sentinel.want[n], "now": got, "cases_since": sentinel.tick}})
			sentinel.want[n] = got // report once
		}
	}
}

// Every case's engine is kept for a few cases and then rendered once more with the same context: a registered
// template renders the same whatever was parsed and rendered in between (on other engines, failing or not).
var lastEngine *twig.Engine

type retainedEngine struct {
	eng  *twig.Engine
	c    *Case
	want Outcome
}

var engineRing []retainedEngine

func rerenderRetained(e *Env, c *Case, im Outcome) {
	if len(engineRing) >= 5 {
		old := engineRing[0]
		engineRing = engineRing[1:]
		res := guarded(func() (string, error) {
			ctx, _ := deepCopy(map[string]interface{}(old.c.Ctx)).(map[string]interface{})
			return old.eng.Render(old.c.Main, ctx)
		})
		e.Rep.Hit("engine-rerendered-later")
		if mapClass(res.Class) != old.want.Class || res.Out != old.want.Out {
			rp := old.c.replay(old.want, Outcome{Out: res.Out, Class: mapClass(res.Class)})
			rp["kind"] = "rerender"
			e.Rep.Violate(Violation{Key: "earlier-template-changed", What: fmt.Sprintf("an engine rendered %q (%s); five other cases later the same Render on the same engine gives %q (%s %s)", truncate(old.want.Out, 120), old.want.Class, truncate(res.Out, 120), res.Class, truncate(fmt.Sprint(res.Err), 100)),
				Broken: "theorem C01_history_independence (a registered template renders the same whatever is parsed or rendered later; implementation-only oracle)", Replay: rp})
		}
	}
	// only cases whose callbacks are stateless (a fault position counts invocations across renders) and that terminated
	if c.FailAt < 0 && im.Class != "panic" && im.Class != "timeout" && lastEngine != nil && len(c.SpyFilters)+len(c.SpyFunctions)+len(c.SpyTests) == 0 {
		engineRing = append(engineRing, retainedEngine{lastEngine, c, im})
	}
	lastEngine = nil
}

// otherEngineOverrides: an unrelated engine of the same process replaces built-in filters, functions and tests by its
// own and sets globals; every engine has its own tables, so nothing of this may show on the engines under test.
func otherEngineOverrides() {
	guarded(func() (string, error) {
		x := twig.New()
		weird := func(v interface{}, a ...interface{}) (interface{}, error) { return "OVERRIDDEN", nil }
		for _, n := range []string{"upper", "lower", "e", "escape", "raw", "trim", "default", "length", "join", "first", "last", "reverse", "keys", "merge", "abs", "slice", "sort", "split", "capitalize", "title", "nosuchfilter"} {
			x.AddFilter(n, weird)
		}
		for _, n := range []string{"range", "max", "min", "length", "nosuchfn", "parent"} {
			x.AddFunction(n, func(a ...interface{}) (interface{}, error) { return "OVERRIDDEN", nil })
		}
		for _, n := range []string{"even", "odd", "empty", "defined", "iterable", "nosuchtest"} {
			x.AddTest(n, func(v interface{}, a ...interface{}) (bool, error) { return true, nil })
		}
		for _, n := range []string{"n", "name", "xs", "user", "t", "f", "a", "b", "g"} {
			x.AddGlobal(n, "OTHER-ENGINE-GLOBAL")
		}
		x.RegisterString("t", "{{ v|upper|e }}{{ range(1, 2)|join }}{% if v is even %}x{% endif %}{{ n }}")
		return x.Render("t", map[string]interface{}{"v": "<&>"})
	})
}

func describeCase(c *Case) map[string]any {
	names := sortedKeys(c.Templates)
	sort.Strings(names)
	t := map[string]any{}
	for _, n := range names {
		t[n] = c.Templates[n]
	}
	return map[string]any{"templates": t, "main": c.Main, "ctx": fmt.Sprint(c.Ctx)}
}

func hasAny(s string, subs ...string) bool {
	for _, x := range subs {
		if strings.Contains(s, x) {
			return true
		}
	}
	return false
}

// multiEntryOracle (implementation-only, with configAndPerturbOracle): the templates of a case share an engine — and
// whatever the engine keeps per template (parse trees, macro tables, block tables). Every template of the case is also
// an entry point: rendered on the engine that has just rendered Main it gives what a fresh engine gives, and Main
// rendered after it (on the warm engine, and on an engine that rendered the other template FIRST) gives what it gave.
func multiEntryOracle(e *Env, c *Case, im Outcome) {
	if len(c.Templates) < 2 {
		return
	}
	runImpl(c)
	warm := lastEngine
	if warm == nil {
		return
	}
	render := func(eng *twig.Engine, name string) Outcome {
		res := guarded(func() (string, error) {
			ctx, _ := deepCopy(map[string]interface{}(c.Ctx)).(map[string]interface{})
			return eng.Render(name, ctx)
		})
		return Outcome{Out: res.Out, Class: mapClass(res.Class)}
	}
	n := 0
	for _, t := range sortedKeys(c.Templates) {
		if t == c.Main || n >= 6 {
			continue
		}
		n++
		c4 := *c
		c4.Main = t
		fresh := runImpl(&c4)
		first := lastEngine
		if fresh.Class == "panic" || fresh.Class == "timeout" {
			continue
		}
		got := render(warm, t)
		e.Rep.Hit("other-template-as-entry-on-warm-engine")
		if got.Class != fresh.Class || got.Out != fresh.Out {
			rp := c4.replay(fresh, got)
			rp["kind"] = "multi-entry"
			rp["rendered_before"] = c.Main
			e.Rep.Violate(Violation{Key: "earlier-template-changed", What: fmt.Sprintf("template %q rendered on an engine that has rendered %q before gives %q (%s); on a fresh engine %q (%s)", t, c.Main, truncate(got.Out, 120), got.Class, truncate(fresh.Out, 120), fresh.Class),
				Broken: "theorem C01_history_independence (what one template's render leaves in the engine does not change another template's; implementation-only oracle)", Replay: rp})
			return
		}
		for _, eng := range []*twig.Engine{warm, first} {
			if eng == nil {
				continue
			}
			again := render(eng, c.Main)
			if again.Class != im.Class || again.Out != im.Out {
				rp := c.replay(im, again)
				rp["kind"] = "multi-entry"
				rp["rendered_before"] = t
				e.Rep.Violate(Violation{Key: "earlier-template-changed", What: fmt.Sprintf("template %q rendered after %q on the same engine gives %q (%s); alone %q (%s)", c.Main, t, truncate(again.Out, 120), again.Class, truncate(im.Out, 120), im.Class),
					Broken: "theorem C01_history_independence (what one template's render leaves in the engine does not change another template's; implementation-only oracle)", Replay: rp})
				return
			}
		}
	}
}

// sameContextTwice (implementation-only, with configAndPerturbOracle): callers reuse one context map for many renders.
// The very same map (and the lists and maps in it) handed to Render twice gives the same result twice — a filter that
// writes into a list of the context (or into the spare capacity behind a sub-slice of it) shows here.
func sameContextTwice(e *Env, c *Case, im Outcome) {
	if len(c.Ctx) == 0 {
		return
	}
	runImpl(c)
	eng := lastEngine
	if eng == nil {
		return
	}
	ctx, _ := deepCopy(map[string]interface{}(c.Ctx)).(map[string]interface{})
	e.Rep.Hit("same-context-object-rendered-twice")
	for k := 0; k < 2; k++ {
		res := guarded(func() (string, error) { return eng.Render(c.Main, ctx) })
		got := Outcome{Out: res.Out, Class: mapClass(res.Class)}
		if got.Class != im.Class || got.Out != im.Out {
			rp := c.replay(im, got)
			rp["kind"] = "same-context-twice"
			e.Rep.Violate(Violation{Key: "context-reuse-changes-output", What: fmt.Sprintf("render %d with one and the same context map gives %q (%s); the first render gave %q (%s)", k+2, truncate(got.Out, 120), got.Class, truncate(im.Out, 120), im.Class),
				Broken: "theorem C01_history_independence / C18: a render leaves the caller's context as it found it, so the next render with it gives the same (implementation-only oracle)", Replay: rp})
			return
		}
	}
}
