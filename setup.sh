#!/bin/sh
# Build the framework from files on disk only (offline).
set -e
cd "$(dirname "$0")"
exec ./check --setup
