package main

// Emitter `AttrCache` (property C20): the facts `TwigModel/AttrCache.lean` is parameterised by.
//
// The cache is found by TYPE: the package-level variable (of an anonymous struct type) that has a
// field of type map[K]E with K, E named struct types of the package; K is the key type, E the entry
// type; "the lookup function" is the function that builds a composite literal of type K.
//
//	keyFields        fields of K with their types
//	keyLiteral       the composite literal of type K in the lookup function: field ↦ where the value comes from
//	                 ("reflect.Value.Type()" = a variable assigned from <v>.Type(), "param" = a parameter)
//	pathStores       assignments `<entry>.<f> = <x>` in the lookup function whose right side mentions the field
//	                 Index of a reflect.StructField: form "Index" (whole path) / "Index[k]" / other
//	fieldUses        calls of reflect.Value.{Field, FieldByIndex, FieldByIndexErr} in the lookup function whose
//	                 argument is a field of the entry
//	maxSize, evictionPct (exact rational of the literal), numToEvict (the emitter evaluates
//	                 int(float64(maxSize) * evictionPct) with float64 arithmetic, then the `< 1` floor if present)
//	evictCountExpr   the eviction function computes `n := int(float64(<cache>.maxSize) * <cache>.evictionPct)`
//	evictAtLeastOne  … followed by `if n < 1 { n = 1 }`
//	evictLoop*       the only loop that writes the cache in the eviction function is
//	                 `for i := 0; i < n && i < len(s); i++ { delete(<cache>.m, s[i].<key>); <cache>.currSize-- }`
//	                 and `s` is only appended to inside `for k, v := range <cache>.m`
//	cacheWrites      EVERY write to a field of the cache variable in the package: (function, ordinal, field, op,
//	                 guard) with op ∈ delete | dec | inc | store (m[k] = v) | assign, guard ∈ present
//	                 (inside `if _, ok := m[k]; ok`), absent (inside `if !found` right after `_, found = m[k]`), none
//	evictTrigger     the condition of the `if` in the lookup function whose body is exactly the call of the
//	                 eviction function: (left field, operator, right field), and whether it precedes the insert
//	typedMapBranch   the lookup function has, at the top level of its body, after the statement that replaces the
//	                 value by its Elem() and before the first use of the cache,
//	                 `if v.Kind() == reflect.Map && v.Type().Key().Kind() == reflect.String { … v.MapIndex(…) … return }`

import (
	"fmt"
	"go/ast"
	"go/constant"
	"go/token"
	"go/types"
	"math/big"
	"strings"
)

func init() { registerEmitter("AttrCache", emitAttrCache) }

type atcCtx struct {
	p        *Pkg
	unknown  []string
	cacheVar *types.Var
	cacheSt  *types.Struct
	mapField *types.Var
	keyName  string
	entName  string
}

func (c *atcCtx) unk(format string, a ...interface{}) {
	c.unknown = append(c.unknown, fmt.Sprintf(format, a...))
}

// cacheField: e is `<cacheVar>.<f>`; returns f.
func (c *atcCtx) cacheField(e ast.Expr) (*types.Var, bool) {
	f, base, ok := fuFieldSel(c.p, e)
	if !ok || fuObj(c.p, base) != types.Object(c.cacheVar) {
		return nil, false
	}
	return f, true
}

// isReflectMethod: call is <x>.<name>(…) with the method belonging to reflect.<recv>.
func atcReflectMethod(p *Pkg, call *ast.CallExpr, recv, name string) (ast.Expr, bool) {
	sel, ok := fuUnparen(call.Fun).(*ast.SelectorExpr)
	if !ok || sel.Sel.Name != name {
		return nil, false
	}
	if fuCalleeQual(p, call) != "(reflect."+recv+")."+name {
		return nil, false
	}
	return sel.X, true
}

// reflectKindTest: e is `<x>.Kind() == reflect.<K>`; returns x and K.
func atcKindTest(p *Pkg, e ast.Expr) (ast.Expr, string, bool) {
	be, ok := fuUnparen(e).(*ast.BinaryExpr)
	if !ok || be.Op != token.EQL {
		return nil, "", false
	}
	call, ok := fuUnparen(be.X).(*ast.CallExpr)
	if !ok {
		return nil, "", false
	}
	sel, ok := fuUnparen(call.Fun).(*ast.SelectorExpr)
	if !ok || sel.Sel.Name != "Kind" {
		return nil, "", false
	}
	q := fuCalleeQual(p, call)
	if q != "(reflect.Value).Kind" && q != "(reflect.Type).Kind" {
		return nil, "", false
	}
	ks, ok := fuUnparen(be.Y).(*ast.SelectorExpr)
	if !ok {
		return nil, "", false
	}
	o, ok := p.Info.Uses[ks.Sel].(*types.Const)
	if !ok || o.Pkg() == nil || o.Pkg().Path() != "reflect" {
		return nil, "", false
	}
	return sel.X, o.Name(), true
}

func emitAttrCache(p *Pkg) (string, error) {
	c := &atcCtx{p: p}
	units := fuUnits(p)
	qual := func(pk *types.Package) string { return pk.Name() }

	// ---- the cache variable ---------------------------------------------------------------------
	scope := p.Types.Scope()
	for _, n := range scope.Names() {
		v, ok := scope.Lookup(n).(*types.Var)
		if !ok {
			continue
		}
		st, ok := v.Type().Underlying().(*types.Struct)
		if !ok {
			continue
		}
		if _, named := v.Type().(*types.Named); named {
			continue
		}
		for i := 0; i < st.NumFields(); i++ {
			if m, ok := st.Field(i).Type().(*types.Map); ok {
				k, e := fuNamed(p, m.Key()), fuNamed(p, m.Elem())
				if k != "" && e != "" && fuStruct(p, k) != nil && fuStruct(p, e) != nil {
					if c.cacheVar != nil {
						c.unk("more than one cache-like variable: %s and %s", c.cacheVar.Name(), v.Name())
						continue
					}
					c.cacheVar, c.cacheSt, c.mapField, c.keyName, c.entName = v, st, st.Field(i), k, e
				}
			}
		}
	}
	var sb strings.Builder
	sb.WriteString(header("AttrCache", "the attribute cache of getAttribute: key and entry layout, capacity and eviction, every writer of the cache, the typed-map branch"))
	if c.cacheVar == nil {
		sb.WriteString("def extractionFailed : Bool := true\n" + footer("AttrCache"))
		return sb.String(), fmt.Errorf("no package-level struct variable with a map[<struct>]<struct> field found")
	}
	keySt := fuStruct(p, c.keyName)
	entSt := fuStruct(p, c.entName)
	isEntryField := func(e ast.Expr) (*types.Var, bool) {
		f, _, ok := fuFieldSel(p, e)
		if !ok {
			return nil, false
		}
		for i := 0; i < entSt.NumFields(); i++ {
			if entSt.Field(i) == f {
				return f, true
			}
		}
		return nil, false
	}

	// ---- the lookup function: holds a composite literal of the key type -------------------------
	var lookup *fuUnit
	var keyLit *ast.CompositeLit
	for i := range units {
		u := &units[i]
		if u.fd == nil {
			continue
		}
		ast.Inspect(u.root, func(n ast.Node) bool {
			if cl, ok := n.(*ast.CompositeLit); ok {
				if tv, ok := p.Info.Types[cl]; ok && fuNamed(p, tv.Type) == c.keyName {
					if _, isPtr := tv.Type.(*types.Pointer); !isPtr {
						// the eviction function copies keys around in a local struct: only a literal with
						// explicit field names filled from outside counts
						if len(cl.Elts) > 0 {
							if _, kv := cl.Elts[0].(*ast.KeyValueExpr); kv {
								if lookup != nil && lookup != u {
									c.unk("key literal in two functions: %s and %s", lookup.name, u.name)
								}
								lookup, keyLit = u, cl
							}
						}
					}
				}
			}
			return true
		})
	}
	lookupName := ""
	if lookup == nil {
		c.unk("no function builds a %s{field: ...} literal", c.keyName)
	} else {
		lookupName = lookup.name
	}

	// key fields
	var rows []string
	for i := 0; i < keySt.NumFields(); i++ {
		f := keySt.Field(i)
		rows = append(rows, fmt.Sprintf("(%s, %s)", leanStr(f.Name()), leanStr(types.TypeString(f.Type(), qual))))
	}
	fmt.Fprintf(&sb, "def cacheVar : String := %s\ndef keyType : String := %s\ndef entryType : String := %s\ndef lookupFunc : String := %s\n\n",
		leanStr(c.cacheVar.Name()), leanStr(c.keyName), leanStr(c.entName), leanStr(lookupName))
	fuTable(&sb, "fields of the key struct: (name, type)", "keyFields", "List (String × String)", rows)

	// key literal
	rows = nil
	if keyLit != nil {
		params := map[types.Object]bool{}
		if lookup.fd.Type.Params != nil {
			for _, f := range lookup.fd.Type.Params.List {
				for _, n := range f.Names {
					params[p.Info.Defs[n]] = true
				}
			}
		}
		for _, el := range keyLit.Elts {
			kv, ok := el.(*ast.KeyValueExpr)
			if !ok {
				continue
			}
			name := types.ExprString(kv.Key)
			src := "other:" + types.ExprString(kv.Value)
			if o := fuObj(p, kv.Value); o != nil {
				if params[o] {
					src = "param"
				} else {
					// the variable's definitions in the function
					n, allType := 0, true
					ast.Inspect(lookup.root, func(x ast.Node) bool {
						as, ok := x.(*ast.AssignStmt)
						if !ok || len(as.Lhs) != len(as.Rhs) {
							return true
						}
						for i, l := range as.Lhs {
							if fuObj(p, l) == o {
								n++
								call, ok := fuUnparen(as.Rhs[i]).(*ast.CallExpr)
								if !ok {
									allType = false
								} else if _, ok := atcReflectMethod(p, call, "Value", "Type"); !ok {
									allType = false
								}
							}
						}
						return true
					})
					if n > 0 && allType {
						src = "reflect.Value.Type()"
					}
				}
			}
			rows = append(rows, fmt.Sprintf("(%s, %s)", leanStr(name), leanStr(src)))
		}
	}
	fuTable(&sb, "the key literal of the lookup function: (field, source of the value)", "keyLiteral", "List (String × String)", rows)

	// ---- entry path: stores and uses --------------------------------------------------------------
	var stores, uses []string
	if lookup != nil {
		ast.Inspect(lookup.root, func(n ast.Node) bool {
			switch x := n.(type) {
			case *ast.AssignStmt:
				if len(x.Lhs) != len(x.Rhs) {
					return true
				}
				for i, l := range x.Lhs {
					f, ok := isEntryField(l)
					if !ok {
						continue
					}
					// does the right side mention reflect.StructField.Index ?
					r := fuUnparen(x.Rhs[i])
					form := ""
					isIdx := func(e ast.Expr) bool {
						sf, _, ok := fuFieldSel(p, e)
						if !ok || sf.Name() != "Index" {
							return false
						}
						sel := fuUnparen(e).(*ast.SelectorExpr)
						return fuQualNamed(p.Info.Selections[sel].Recv()) == "reflect.StructField"
					}
					switch {
					case isIdx(r):
						form = "Index"
					default:
						if ix, ok := r.(*ast.IndexExpr); ok && isIdx(ix.X) {
							if k, ok := fuConstInt(p, ix.Index); ok {
								form = fmt.Sprintf("Index[%d]", k)
							} else {
								form = "Index[?]"
							}
						} else {
							mention := false
							ast.Inspect(r, func(y ast.Node) bool {
								if e, ok := y.(ast.Expr); ok && isIdx(e) {
									mention = true
								}
								return true
							})
							if mention {
								form = "other:" + types.ExprString(r)
							}
						}
					}
					if form != "" {
						stores = append(stores, fmt.Sprintf("(%s, %s, %s)", leanStr(lookup.name), leanStr(f.Name()), leanStr(form)))
					}
				}
			case *ast.CallExpr:
				for _, m := range []string{"Field", "FieldByIndex", "FieldByIndexErr"} {
					if _, ok := atcReflectMethod(p, x, "Value", m); ok && len(x.Args) == 1 {
						arg := "other:" + types.ExprString(x.Args[0])
						if f, ok := isEntryField(x.Args[0]); ok {
							arg = f.Name()
						}
						uses = append(uses, fmt.Sprintf("(%s, %s, %s)", leanStr(lookup.name), leanStr(m), leanStr(arg)))
					}
				}
			}
			return true
		})
	}
	fuTable(&sb, "stores of a reflect.StructField.Index into the entry: (function, entry field, form of the right side)", "pathStores", "List (String × String × String)", stores)
	fuTable(&sb, "reflect.Value field accessors in the lookup function: (function, method, entry field passed)", "fieldUses", "List (String × String × String)", uses)

	// ---- capacity constants from the initialiser ------------------------------------------------------
	maxSize := int64(-1)
	pctNum, pctDen := int64(-1), int64(1)
	var pctRat *big.Rat
	for _, u := range units {
		if u.fd != nil || u.name != "var "+c.cacheVar.Name() {
			continue
		}
		ast.Inspect(u.root, func(n ast.Node) bool {
			kv, ok := n.(*ast.KeyValueExpr)
			if !ok {
				return true
			}
			id, ok := kv.Key.(*ast.Ident)
			if !ok {
				return true
			}
			f, ok := p.Info.Uses[id].(*types.Var)
			if !ok || !f.IsField() {
				return true
			}
			switch f.Name() {
			case "maxSize":
				if v, ok := fuConstInt(p, kv.Value); ok {
					maxSize = v
				}
			case "evictionPct":
				// exact value of the literal as written
				if bl, ok := fuUnparen(kv.Value).(*ast.BasicLit); ok && (bl.Kind == token.FLOAT || bl.Kind == token.INT) {
					v := constant.MakeFromLiteral(bl.Value, bl.Kind, 0)
					if r, ok := new(big.Rat).SetString(v.ExactString()); ok {
						pctRat = r
						if r.Num().IsInt64() && r.Denom().IsInt64() {
							pctNum, pctDen = r.Num().Int64(), r.Denom().Int64()
						}
					}
				}
			}
			return true
		})
	}
	if maxSize < 0 {
		c.unk("maxSize constant not found in the initialiser of %s", c.cacheVar.Name())
	}
	if pctNum < 0 {
		c.unk("evictionPct literal not found in the initialiser of %s", c.cacheVar.Name())
	}

	// ---- every write to the cache ---------------------------------------------------------------------
	type wr struct {
		fn           string
		ord          int
		field, op    string
		guard        string
		node         ast.Node
		stack        []ast.Node
		keyExpr      ast.Expr
		containsCall bool
	}
	var writes []wr
	var evict *fuUnit
	for i := range units {
		u := &units[i]
		if u.fd == nil {
			continue
		}
		ord := 0
		fuWalk(u.root, func(n ast.Node, stack []ast.Node) bool {
			add := func(f *types.Var, op string, key ast.Expr) {
				st := append([]ast.Node{}, stack...)
				writes = append(writes, wr{fn: u.name, ord: ord, field: f.Name(), op: op, node: n, stack: st, keyExpr: key})
				ord++
			}
			switch x := n.(type) {
			case *ast.AssignStmt:
				for _, l := range x.Lhs {
					l = fuUnparen(l)
					if f, ok := c.cacheField(l); ok {
						add(f, "assign", nil)
					} else if ix, ok := l.(*ast.IndexExpr); ok {
						if f, ok := c.cacheField(ix.X); ok {
							add(f, "store", ix.Index)
						}
					}
				}
			case *ast.IncDecStmt:
				if f, ok := c.cacheField(x.X); ok {
					if x.Tok == token.INC {
						add(f, "inc", nil)
					} else {
						add(f, "dec", nil)
					}
				}
			case *ast.ExprStmt:
				if call, ok := x.X.(*ast.CallExpr); ok && fuIsBuiltin(p, call, "delete") && len(call.Args) == 2 {
					if f, ok := c.cacheField(call.Args[0]); ok {
						add(f, "delete", call.Args[1])
						evict = u
					}
				}
			case *ast.UnaryExpr:
				if x.Op == token.AND {
					if f, ok := c.cacheField(x.X); ok && f.Name() != "RWMutex" {
						add(f, "addressTaken", nil)
					}
				}
			}
			return true
		})
	}
	// guards of the stores
	isMapRead := func(e ast.Expr, key ast.Expr) bool {
		ix, ok := fuUnparen(e).(*ast.IndexExpr)
		if !ok {
			return false
		}
		f, ok := c.cacheField(ix.X)
		return ok && f == c.mapField && fuSameExpr(p, ix.Index, key)
	}
	for i := range writes {
		w := &writes[i]
		w.guard = "none"
		if w.op != "store" {
			continue
		}
		full := append(append([]ast.Node{}, w.stack...), w.node)
		for j := len(full) - 2; j >= 0; j-- {
			ifs, ok := full[j].(*ast.IfStmt)
			if !ok || full[j+1] != ast.Node(ifs.Body) {
				continue
			}
			// if v, ok := m[key]; ok { … }
			if as, ok := ifs.Init.(*ast.AssignStmt); ok && as.Tok == token.DEFINE && len(as.Lhs) == 2 && len(as.Rhs) == 1 &&
				isMapRead(as.Rhs[0], w.keyExpr) && fuObj(p, ifs.Cond) != nil && fuObj(p, ifs.Cond) == fuObj(p, as.Lhs[1]) {
				w.guard = "present"
				break
			}
			// x, found = m[key]; if !found { … }
			if ue, ok := fuUnparen(ifs.Cond).(*ast.UnaryExpr); ok && ue.Op == token.NOT && ifs.Init == nil && j >= 1 {
				if blk, ok := full[j-1].(*ast.BlockStmt); ok {
					for k, st := range blk.List {
						if st == ast.Stmt(ifs) && k > 0 {
							if as, ok := blk.List[k-1].(*ast.AssignStmt); ok && len(as.Lhs) == 2 && len(as.Rhs) == 1 &&
								isMapRead(as.Rhs[0], w.keyExpr) && fuObj(p, ue.X) != nil && fuObj(p, ue.X) == fuObj(p, as.Lhs[1]) {
								w.guard = "absent"
							}
						}
					}
				}
				if w.guard == "absent" {
					break
				}
			}
		}
	}
	// the increment that accompanies the insert: same block as the absent-guarded store
	rows = nil
	insertBlockHasInc := false
	var insertStmt ast.Node
	var insertBlock *ast.BlockStmt
	for _, w := range writes {
		if w.op == "store" && w.guard == "absent" && len(w.stack) > 0 {
			if blk, ok := w.stack[len(w.stack)-1].(*ast.BlockStmt); ok {
				insertBlock, insertStmt = blk, w.node
				for _, w2 := range writes {
					if w2.op == "inc" && w2.field == "currSize" && len(w2.stack) > 0 && w2.stack[len(w2.stack)-1] == ast.Node(blk) {
						insertBlockHasInc = true
					}
				}
			}
		}
		rows = append(rows, fmt.Sprintf("(%s, %d, %s, %s, %s)", leanStr(w.fn), w.ord, leanStr(w.field), leanStr(w.op), leanStr(w.guard)))
	}
	fuTable(&sb, "every write to a field of the cache variable: (function, ordinal, field, op, guard)", "cacheWrites", "List (String × Nat × String × String × String)", rows)
	fmt.Fprintf(&sb, "/-- the block that inserts under an absent key also does `currSize++` -/\ndef insertIncrements : Bool := %s\n\n", leanBool(insertBlockHasInc))

	// ---- the eviction function ------------------------------------------------------------------------
	evictName := ""
	countExpr, atLeastOne := false, false
	loopOK, keysFromRange, indexIsLoopVar := false, false, false
	numToEvict := int64(-1)
	if evict == nil {
		c.unk("no function deletes from %s.%s", c.cacheVar.Name(), c.mapField.Name())
	} else {
		evictName = evict.name
		var nVar types.Object
		for si, st := range evict.fd.Body.List {
			// n := int(float64(cache.maxSize) * cache.evictionPct)
			if as, ok := st.(*ast.AssignStmt); ok && as.Tok == token.DEFINE && len(as.Lhs) == 1 && len(as.Rhs) == 1 && nVar == nil {
				if conv, ok := fuUnparen(as.Rhs[0]).(*ast.CallExpr); ok && len(conv.Args) == 1 && atcIsConv(p, conv, "int") {
					if mul, ok := fuUnparen(conv.Args[0]).(*ast.BinaryExpr); ok && mul.Op == token.MUL {
						l, r := fuUnparen(mul.X), fuUnparen(mul.Y)
						if fc, ok := l.(*ast.CallExpr); ok && len(fc.Args) == 1 && atcIsConv(p, fc, "float64") {
							lf, ok1 := c.cacheField(fc.Args[0])
							rf, ok2 := c.cacheField(r)
							if ok1 && ok2 && lf.Name() == "maxSize" && rf.Name() == "evictionPct" {
								countExpr = true
								nVar = fuObj(p, as.Lhs[0])
								// `if n < 1 { n = 1 }` as the next statement
								if si+1 < len(evict.fd.Body.List) {
									if ifs, ok := evict.fd.Body.List[si+1].(*ast.IfStmt); ok && ifs.Else == nil && ifs.Init == nil && len(ifs.Body.List) == 1 {
										if be, ok := fuUnparen(ifs.Cond).(*ast.BinaryExpr); ok && be.Op == token.LSS && fuObj(p, be.X) == nVar {
											if v, ok := fuConstInt(p, be.Y); ok && v == 1 {
												if as2, ok := ifs.Body.List[0].(*ast.AssignStmt); ok && as2.Tok == token.ASSIGN && len(as2.Lhs) == 1 && fuObj(p, as2.Lhs[0]) == nVar {
													if v, ok := fuConstInt(p, as2.Rhs[0]); ok && v == 1 {
														atLeastOne = true
													}
												}
											}
										}
									}
								}
							}
						}
					}
				}
			}
		}
		if countExpr && maxSize >= 0 && pctRat != nil {
			pf, _ := pctRat.Float64()
			numToEvict = int64(float64(maxSize) * pf)
			if atLeastOne && numToEvict < 1 {
				numToEvict = 1
			}
		}
		// the loop
		var loops []*ast.ForStmt
		for _, w := range writes {
			if w.fn != evict.name {
				continue
			}
			i := fuEnclosing(w.stack, func(n ast.Node) bool {
				switch n.(type) {
				case *ast.ForStmt, *ast.RangeStmt:
					return true
				}
				return false
			})
			if i < 0 {
				loops = append(loops, nil)
				continue
			}
			fs, _ := w.stack[i].(*ast.ForStmt)
			loops = append(loops, fs)
		}
		same := len(loops) > 0
		for _, l := range loops {
			if l == nil || l != loops[0] {
				same = false
			}
		}
		if same {
			fs := loops[0]
			// body: exactly delete(cache.m, s[i].key); cache.currSize--
			if len(fs.Body.List) == 2 {
				var delKey ast.Expr
				if es, ok := fs.Body.List[0].(*ast.ExprStmt); ok {
					if call, ok := es.X.(*ast.CallExpr); ok && fuIsBuiltin(p, call, "delete") && len(call.Args) == 2 {
						if f, ok := c.cacheField(call.Args[0]); ok && f == c.mapField {
							delKey = call.Args[1]
						}
					}
				}
				decOK := false
				if ids, ok := fs.Body.List[1].(*ast.IncDecStmt); ok && ids.Tok == token.DEC {
					if f, ok := c.cacheField(ids.X); ok && f.Name() == "currSize" {
						decOK = true
					}
				}
				// for i := 0; i < n && i < len(s); i++
				var iVar types.Object
				if as, ok := fs.Init.(*ast.AssignStmt); ok && as.Tok == token.DEFINE && len(as.Lhs) == 1 {
					if v, ok := fuConstInt(p, as.Rhs[0]); ok && v == 0 {
						iVar = fuObj(p, as.Lhs[0])
					}
				}
				postOK := false
				if ids, ok := fs.Post.(*ast.IncDecStmt); ok && ids.Tok == token.INC && iVar != nil && fuObj(p, ids.X) == iVar {
					postOK = true
				}
				boundN, boundLen := false, false
				var sliceObj types.Object
				for _, cj := range sbxConjuncts(fs.Cond) {
					if be, ok := fuUnparen(cj).(*ast.BinaryExpr); ok && be.Op == token.LSS && iVar != nil && fuObj(p, be.X) == iVar {
						if nVar != nil && fuObj(p, be.Y) == nVar {
							boundN = true
						} else if call, ok := fuUnparen(be.Y).(*ast.CallExpr); ok && fuIsBuiltin(p, call, "len") && len(call.Args) == 1 {
							sliceObj = fuObj(p, call.Args[0])
							boundLen = sliceObj != nil
						}
					}
				}
				if delKey != nil && decOK && postOK && boundN && boundLen {
					loopOK = true
					// delKey = s[i].<field of type K>
					if sel, ok := fuUnparen(delKey).(*ast.SelectorExpr); ok {
						if ix, ok := fuUnparen(sel.X).(*ast.IndexExpr); ok && fuObj(p, ix.X) == sliceObj && fuObj(p, ix.Index) == iVar {
							indexIsLoopVar = true
						}
					}
					// every append to s is inside `for k, v := range cache.m` and puts k first
					nApp, good := 0, true
					fuWalk(evict.root, func(n ast.Node, stack []ast.Node) bool {
						as, ok := n.(*ast.AssignStmt)
						if !ok || len(as.Lhs) != 1 || fuObj(p, as.Lhs[0]) != sliceObj || as.Tok == token.DEFINE {
							return true
						}
						nApp++
						call, ok := fuUnparen(as.Rhs[0]).(*ast.CallExpr)
						if !ok || !fuIsBuiltin(p, call, "append") || len(call.Args) != 2 || fuObj(p, call.Args[0]) != sliceObj {
							good = false
							return true
						}
						ri := fuEnclosing(stack, func(x ast.Node) bool { _, ok := x.(*ast.RangeStmt); return ok })
						if ri < 0 {
							good = false
							return true
						}
						rs := stack[ri].(*ast.RangeStmt)
						if f, ok := c.cacheField(rs.X); !ok || f != c.mapField || rs.Key == nil {
							good = false
							return true
						}
						cl, ok := fuUnparen(call.Args[1]).(*ast.CompositeLit)
						if !ok || len(cl.Elts) < 1 {
							good = false
							return true
						}
						first := cl.Elts[0]
						if kv, ok := first.(*ast.KeyValueExpr); ok {
							first = kv.Value
						}
						if fuObj(p, first) == nil || fuObj(p, first) != fuObj(p, rs.Key) {
							good = false
						}
						return true
					})
					keysFromRange = good && nApp > 0
				}
			}
		}
	}

	// ---- eviction trigger -----------------------------------------------------------------------------
	trigL, trigOp, trigR := "", "", ""
	trigBeforeInsert := false
	if lookup != nil && evict != nil {
		evObj := p.Info.Defs[evict.fd.Name]
		n := 0
		fuWalk(lookup.root, func(x ast.Node, stack []ast.Node) bool {
			ifs, ok := x.(*ast.IfStmt)
			if !ok || len(ifs.Body.List) != 1 || ifs.Else != nil {
				return true
			}
			es, ok := ifs.Body.List[0].(*ast.ExprStmt)
			if !ok {
				return true
			}
			call, ok := es.X.(*ast.CallExpr)
			if !ok || fuCallee(p, call) == nil || types.Object(fuCallee(p, call)) != evObj {
				return true
			}
			n++
			if be, ok := fuUnparen(ifs.Cond).(*ast.BinaryExpr); ok {
				lf, ok1 := c.cacheField(be.X)
				rf, ok2 := c.cacheField(be.Y)
				if ok1 && ok2 {
					trigL, trigOp, trigR = lf.Name(), be.Op.String(), rf.Name()
				}
			}
			// same block as the insert, before it
			if insertBlock != nil && len(stack) > 0 && stack[len(stack)-1] == ast.Node(insertBlock) {
				seenIf := false
				for _, st := range insertBlock.List {
					if st == ast.Stmt(ifs) {
						seenIf = true
					}
					if ast.Node(st) == insertStmt && seenIf {
						trigBeforeInsert = true
					}
				}
			}
			return true
		})
		// calls of the eviction function outside such an `if`
		calls := 0
		for _, u := range units {
			ast.Inspect(u.root, func(x ast.Node) bool {
				if call, ok := x.(*ast.CallExpr); ok {
					if fn := fuCallee(p, call); fn != nil && types.Object(fn) == evObj {
						calls++
					}
				}
				return true
			})
		}
		if n != 1 || calls != 1 {
			c.unk("expected exactly one call of %s, guarded by one `if`; found %d guarded of %d calls", evict.name, n, calls)
		}
	}

	// ---- typed-map branch -----------------------------------------------------------------------------
	typedMap, afterIndirection, beforeCache := false, false, false
	if lookup != nil {
		top := lookup.fd.Body.List
		elemIdx, cacheIdx, branchIdx := -1, -1, -1
		var branchVal types.Object
		for i, st := range top {
			// first statement that touches the cache
			if cacheIdx < 0 {
				ast.Inspect(st, func(x ast.Node) bool {
					if e, ok := x.(ast.Expr); ok && fuObj(p, e) == types.Object(c.cacheVar) {
						cacheIdx = i
					}
					return true
				})
			}
			ifs, ok := st.(*ast.IfStmt)
			if !ok {
				continue
			}
			// if isPtr { v = v.Elem() }
			for _, bst := range ifs.Body.List {
				if as, ok := bst.(*ast.AssignStmt); ok && as.Tok == token.ASSIGN && len(as.Lhs) == 1 && len(as.Rhs) == 1 {
					if call, ok := fuUnparen(as.Rhs[0]).(*ast.CallExpr); ok {
						if x, ok := atcReflectMethod(p, call, "Value", "Elem"); ok && fuObj(p, x) != nil && fuObj(p, x) == fuObj(p, as.Lhs[0]) {
							elemIdx = i
						}
					}
				}
			}
			// the branch
			var mapOn, strOn types.Object
			for _, cj := range sbxConjuncts(ifs.Cond) {
				x, k, ok := atcKindTest(p, cj)
				if !ok {
					continue
				}
				if k == "Map" {
					mapOn = fuObj(p, x)
				}
				if k == "String" {
					// x is <v>.Type().Key()
					if kc, ok := fuUnparen(x).(*ast.CallExpr); ok {
						if tx, ok := atcReflectMethod(p, kc, "Type", "Key"); ok {
							if tc, ok := fuUnparen(tx).(*ast.CallExpr); ok {
								if vx, ok := atcReflectMethod(p, tc, "Value", "Type"); ok {
									strOn = fuObj(p, vx)
								}
							}
						}
					}
				}
			}
			if mapOn != nil && mapOn == strOn && len(sbxConjuncts(ifs.Cond)) == 2 && branchIdx < 0 {
				hasIndex, endsInReturn := false, false
				ast.Inspect(ifs.Body, func(x ast.Node) bool {
					if call, ok := x.(*ast.CallExpr); ok {
						if vx, ok := atcReflectMethod(p, call, "Value", "MapIndex"); ok && fuObj(p, vx) == mapOn {
							hasIndex = true
						}
					}
					return true
				})
				if n := len(ifs.Body.List); n > 0 {
					_, endsInReturn = ifs.Body.List[n-1].(*ast.ReturnStmt)
				}
				if hasIndex && endsInReturn {
					branchIdx = i
					branchVal = mapOn
				}
			}
		}
		_ = branchVal
		typedMap = branchIdx >= 0
		afterIndirection = typedMap && elemIdx >= 0 && elemIdx < branchIdx
		beforeCache = typedMap && cacheIdx > branchIdx
	}

	fmt.Fprintf(&sb, "def maxSize : Nat := %d\n/-- the `evictionPct` literal as an exact fraction -/\ndef evictionPctNum : Nat := %d\ndef evictionPctDen : Nat := %d\n", max64(maxSize, 0), max64(pctNum, 0), pctDen)
	fmt.Fprintf(&sb, "def evictFunc : String := %s\n", leanStr(evictName))
	fmt.Fprintf(&sb, "/-- `n := int(float64(<cache>.maxSize) * <cache>.evictionPct)` -/\ndef evictCountExpr : Bool := %s\n/-- followed by `if n < 1 { n = 1 }` -/\ndef evictAtLeastOne : Bool := %s\n", leanBool(countExpr), leanBool(atLeastOne))
	fmt.Fprintf(&sb, "/-- that expression evaluated by the extractor with float64 arithmetic (0 = not recognised) -/\ndef numToEvict : Nat := %d\n", max64(numToEvict, 0))
	fmt.Fprintf(&sb, "/-- every write of the eviction function sits in ONE loop `for i := 0; i < n && i < len(s); i++ { delete(<cache>.m, …); <cache>.currSize-- }` -/\ndef evictLoopIsDeleteDec : Bool := %s\n", leanBool(loopOK))
	fmt.Fprintf(&sb, "/-- the deleted key is `s[i].<key>` for the loop's own counter -/\ndef evictIndexIsLoopVar : Bool := %s\n", leanBool(indexIsLoopVar))
	fmt.Fprintf(&sb, "/-- `s` is only appended to inside `for k, v := range <cache>.m`, with `k` as the first component -/\ndef evictKeysFromMapRange : Bool := %s\n\n", leanBool(keysFromRange))
	fmt.Fprintf(&sb, "/-- the `if` whose body is exactly the call of the eviction function: (left field, operator, right field) -/\ndef evictTrigger : String × String × String := (%s, %s, %s)\n/-- … in the block of the insert, before it -/\ndef evictTriggerBeforeInsert : Bool := %s\n\n", leanStr(trigL), leanStr(trigOp), leanStr(trigR), leanBool(trigBeforeInsert))
	fmt.Fprintf(&sb, "/-- `if v.Kind() == reflect.Map && v.Type().Key().Kind() == reflect.String { … v.MapIndex(…) … return … }` at the top level of the lookup function -/\ndef typedMapBranch : Bool := %s\n/-- … after the statement `v = v.Elem()` -/\ndef typedMapAfterIndirection : Bool := %s\n/-- … before the first statement that touches the cache -/\ndef typedMapBeforeCache : Bool := %s\n\n", leanBool(typedMap), leanBool(afterIndirection), leanBool(beforeCache))

	rows = nil
	for _, u := range c.unknown {
		rows = append(rows, leanStr(u))
	}
	fuTable(&sb, "constructs that fitted no schema (must be empty)", "unknown", "List String", rows)
	sb.WriteString(footer("AttrCache"))
	var err error
	if len(c.unknown) > 0 {
		err = fmt.Errorf("%d construct(s) not recognised: %s", len(c.unknown), strings.Join(c.unknown, "; "))
	}
	return sb.String(), err
}

func max64(a, b int64) int64 {
	if a > b {
		return a
	}
	return b
}

// atcIsConv: call is a conversion to the basic type `name`.
func atcIsConv(p *Pkg, call *ast.CallExpr, name string) bool {
	tv, ok := p.Info.Types[call.Fun]
	if !ok || !tv.IsType() {
		return false
	}
	b, ok := tv.Type.(*types.Basic)
	return ok && b.Name() == name
}
