package main

// Emitter `Pools` (property C01): the facts `TwigModel/Pool.lean` is parameterised by.
//
// Pooled kinds the model knows, found by TYPE:
//
//	root       the sync.Pool whose Get() is asserted to *RootNode
//	ctx        … *RenderContext
//	tokenizer  … *TokenizerPooled (its struct-valued field of type ZeroAllocTokenizer is flattened)
//	strbuf     … *StringBuffer
//	ctxMap / blocksMap / macrosMap
//	           the sync.Pool whose Get() result is stored into the RenderContext field
//	           `context` / `blocks`,`parentBlocks` / `macros` (assignment or composite literal)
//
// Tables (every row carries the enclosing function "Recv.Name"/"Name"/"var <name>" and an ordinal):
//
//	poolVars     kind ↦ pool variable
//	structFields struct ↦ declared fields
//	kindFields   kind ↦ fields of the pooled struct (struct-valued package-local fields flattened)
//	getSites     every `<pool>.Get()` of a known kind
//	putSites     every `<pool>.Put(x)` of a known kind; for map kinds: is the statement before it, in the same
//	             block, `for k := range x { delete(x, k) }`
//	assigns      per function holding a Get of a struct kind: the fields of the object taken from the pool
//	             (or of a local alias `a := &obj.f`) assigned on EVERY path: a top-level assignment; an if/else
//	             both arms of which assign it or empty it by the delete loop; `obj.f.Reset()`
//	clears       per Put site of a struct kind: fields assigned a zero value (nil, "", 0, false) in the blocks
//	             enclosing the Put, before it
//	reads        per kind and field: number of functions that READ it (selector not on the left of `=`/`:=`,
//	             not the right side of a plain copy `y.f = x.f` of the same field); `internOnly` = all reads are
//	             in one method whose every return yields its string parameter or the range variable `c` of
//	             `for _, c := range recv.f` under `if c == param` (an intern table: result equals the argument)
//	rootReleaseSites / childReleaseSites
//	             calls of a function that Puts into the root pool / a pool of any other type implementing Node,
//	             or of a one-statement wrapper method around it, or of a method `Release` through an interface,
//	             outside those functions and wrappers themselves
//	tokRelease   calls of the tokenizer release function, with their position relative to the call of
//	             (*Parser).parseOuterTemplate in the same function: before / after / deferred / noRead
//
// Anything that fits no schema is reported in `unknown`.

import (
	"fmt"
	"go/ast"
	"go/token"
	"go/types"
	"sort"
	"strings"
)

func init() { registerEmitter("Pools", emitPools) }

var plsStructKinds = []struct{ kind, typ string }{
	{"root", "RootNode"}, {"ctx", "RenderContext"}, {"tokenizer", "TokenizerPooled"}, {"strbuf", "StringBuffer"},
}

// RenderContext field ↦ map kind
var plsMapFieldKind = map[string]string{"context": "ctxMap", "blocks": "blocksMap", "parentBlocks": "blocksMap", "macros": "macrosMap"}

type plsCtx struct {
	p          *Pkg
	units      []fuUnit
	unknown    []string
	poolKind   map[types.Object]string // pool variable ↦ kind ("node:<T>" for child node pools)
	kindStruct map[string][]string     // struct kind ↦ struct names (pooled type first)
	fieldOwner map[*types.Var]string   // field object ↦ declaring struct
	fieldKind  map[*types.Var]string   // field object ↦ kind (only fields listed in kindFields)
	kindFields map[string][]string
	nodeIface  *types.Interface
}

func (c *plsCtx) unk(format string, a ...interface{}) {
	c.unknown = append(c.unknown, fmt.Sprintf(format, a...))
}

// getAssert: e is `<pool>.Get().(T)`; returns the pool object and T.
func (c *plsCtx) getAssert(e ast.Expr) (types.Object, types.Type, *ast.CallExpr, bool) {
	ta, ok := fuUnparen(e).(*ast.TypeAssertExpr)
	if !ok || ta.Type == nil {
		return nil, nil, nil, false
	}
	call, ok := fuUnparen(ta.X).(*ast.CallExpr)
	if !ok {
		return nil, nil, nil, false
	}
	_, o, ok := fuPoolCall(c.p, call, "Get")
	if !ok || o == nil {
		return nil, nil, nil, false
	}
	return o, c.p.Info.Types[ta.Type].Type, call, true
}

func (c *plsCtx) isNodeType(t types.Type) bool {
	if c.nodeIface == nil || t == nil {
		return false
	}
	return types.Implements(t, c.nodeIface)
}

// findPools fills poolKind.
func (c *plsCtx) findPools() {
	p := c.p
	set := func(o types.Object, kind string) {
		if old, ok := c.poolKind[o]; ok && old != kind {
			c.unk("pool %s serves two kinds: %s and %s", o.Name(), old, kind)
			return
		}
		c.poolKind[o] = kind
	}
	for _, u := range c.units {
		fuWalk(u.root, func(n ast.Node, stack []ast.Node) bool {
			e, ok := n.(ast.Expr)
			if !ok {
				return true
			}
			o, t, _, ok := c.getAssert(e)
			if !ok {
				return true
			}
			name := fuNamed(p, t)
			for _, sk := range plsStructKinds {
				if name == sk.typ {
					set(o, sk.kind)
					return true
				}
			}
			if _, isPtr := t.(*types.Pointer); isPtr && name != "" && c.isNodeType(t) {
				set(o, "node:"+name)
				return true
			}
			// a map stored into a RenderContext field
			if _, isMap := t.Underlying().(*types.Map); isMap && len(stack) > 0 {
				switch par := stack[len(stack)-1].(type) {
				case *ast.AssignStmt:
					for i, r := range par.Rhs {
						if r == e && i < len(par.Lhs) {
							if f, _, ok := fuFieldSel(p, par.Lhs[i]); ok && c.fieldOwner[f] == "RenderContext" {
								if k, ok := plsMapFieldKind[f.Name()]; ok {
									set(o, k)
								}
							}
						}
					}
				case *ast.KeyValueExpr:
					if id, ok := par.Key.(*ast.Ident); ok && par.Value == e {
						if f, ok := p.Info.Uses[id].(*types.Var); ok && f.IsField() && c.fieldOwner[f] == "RenderContext" {
							if k, ok := plsMapFieldKind[f.Name()]; ok {
								set(o, k)
							}
						}
					}
				}
			}
			return true
		})
	}
}

// structs of a kind and their flattened field list
func (c *plsCtx) buildFields() {
	p := c.p
	scope := p.Types.Scope()
	for _, n := range scope.Names() {
		if tn, ok := scope.Lookup(n).(*types.TypeName); ok {
			if st, ok := tn.Type().Underlying().(*types.Struct); ok {
				for i := 0; i < st.NumFields(); i++ {
					c.fieldOwner[st.Field(i)] = n
				}
			}
		}
	}
	for _, sk := range plsStructKinds {
		st := fuStruct(p, sk.typ)
		if st == nil {
			c.unk("struct %s not found", sk.typ)
			continue
		}
		c.kindStruct[sk.kind] = []string{sk.typ}
		for i := 0; i < st.NumFields(); i++ {
			f := st.Field(i)
			if inner := fuNamed(p, f.Type()); inner != "" {
				if _, isPtr := f.Type().(*types.Pointer); !isPtr {
					if ist := fuStruct(p, inner); ist != nil {
						// struct-valued field: flatten
						c.kindStruct[sk.kind] = append(c.kindStruct[sk.kind], inner)
						for j := 0; j < ist.NumFields(); j++ {
							c.kindFields[sk.kind] = append(c.kindFields[sk.kind], ist.Field(j).Name())
							c.fieldKind[ist.Field(j)] = sk.kind
						}
						continue
					}
				}
			}
			c.kindFields[sk.kind] = append(c.kindFields[sk.kind], f.Name())
			c.fieldKind[f] = sk.kind
		}
	}
}

// kindField: e selects a field of a pooled struct kind; returns kind, field name, base expression.
func (c *plsCtx) kindField(e ast.Expr) (string, *types.Var, ast.Expr, bool) {
	f, base, ok := fuFieldSel(c.p, e)
	if !ok {
		return "", nil, nil, false
	}
	k, ok := c.fieldKind[f]
	return k, f, base, ok
}

type plsSet struct {
	order []string
	has   map[string]bool
}

func (s *plsSet) add(x string) {
	if s.has == nil {
		s.has = map[string]bool{}
	}
	if !s.has[x] {
		s.has[x] = true
		s.order = append(s.order, x)
	}
}

// assignedOnEveryPath: fields of `kind` assigned (through one of the objects `objs`) on every path through stmts.
func (c *plsCtx) assignedOnEveryPath(stmts []ast.Stmt, kind string, objs map[types.Object]bool) *plsSet {
	out := &plsSet{}
	match := func(e ast.Expr) (string, bool) {
		k, f, base, ok := c.kindField(e)
		if !ok || k != kind {
			return "", false
		}
		if o := fuRootObj(c.p, base); o == nil || !objs[o] {
			return "", false
		}
		return f.Name(), true
	}
	for _, st := range stmts {
		switch s := st.(type) {
		case *ast.AssignStmt:
			for _, l := range s.Lhs {
				if f, ok := match(l); ok {
					out.add(f)
				}
			}
		case *ast.ExprStmt:
			// obj.f.Reset()
			if call, ok := s.X.(*ast.CallExpr); ok && len(call.Args) == 0 {
				if sel, ok := call.Fun.(*ast.SelectorExpr); ok && sel.Sel.Name == "Reset" {
					if ms := c.p.Info.Selections[sel]; ms != nil && ms.Kind() == types.MethodVal {
						if f, ok := match(sel.X); ok {
							out.add(f)
						}
					}
				}
			}
		case *ast.RangeStmt:
			if m, ok := fuIsClearLoop(c.p, s); ok {
				if f, ok := match(m); ok {
					out.add(f)
				}
			}
		case *ast.BlockStmt:
			for _, f := range c.assignedOnEveryPath(s.List, kind, objs).order {
				out.add(f)
			}
		case *ast.IfStmt:
			if s.Else == nil {
				continue
			}
			a := c.assignedOnEveryPath(s.Body.List, kind, objs)
			var b *plsSet
			switch e := s.Else.(type) {
			case *ast.BlockStmt:
				b = c.assignedOnEveryPath(e.List, kind, objs)
			default:
				b = c.assignedOnEveryPath([]ast.Stmt{e}, kind, objs)
			}
			for _, f := range a.order {
				if b.has[f] {
					out.add(f)
				}
			}
		case *ast.ReturnStmt:
			return out
		}
	}
	return out
}

// pooledObjects: the locals bound to `<pool of kind>.Get().(*T)` in the unit, plus aliases `a := &obj.f` / `a := obj`.
func (c *plsCtx) pooledObjects(u fuUnit, kind string) map[types.Object]bool {
	objs := map[types.Object]bool{}
	for changed := true; changed; {
		changed = false
		ast.Inspect(u.root, func(n ast.Node) bool {
			as, ok := n.(*ast.AssignStmt)
			if !ok || len(as.Lhs) != len(as.Rhs) {
				return true
			}
			for i, r := range as.Rhs {
				lo := fuObj(c.p, as.Lhs[i])
				if lo == nil || objs[lo] {
					continue
				}
				if o, _, _, ok := c.getAssert(r); ok && c.poolKind[o] == kind {
					objs[lo] = true
					changed = true
					continue
				}
				// alias of (a part of) an object already known
				if ro := fuRootObj(c.p, r); ro != nil && objs[ro] {
					if _, isPtr := lo.Type().(*types.Pointer); isPtr {
						name := fuNamed(c.p, lo.Type())
						for _, s := range c.kindStruct[kind] {
							if s == name {
								objs[lo] = true
								changed = true
							}
						}
					}
				}
			}
			return true
		})
	}
	return objs
}

type plsSite struct {
	kind, fn string
	ord      int
	pool     string
	extra    string
	flag     bool
	fields   []string
}

func emitPools(p *Pkg) (string, error) {
	c := &plsCtx{p: p, units: fuUnits(p), poolKind: map[types.Object]string{}, kindStruct: map[string][]string{},
		fieldOwner: map[*types.Var]string{}, fieldKind: map[*types.Var]string{}, kindFields: map[string][]string{}}
	if o, ok := p.Types.Scope().Lookup("Node").(*types.TypeName); ok {
		c.nodeIface, _ = o.Type().Underlying().(*types.Interface)
	}
	if c.nodeIface == nil {
		c.unk("interface Node not found")
	}
	c.buildFields()
	c.findPools()

	isStructKind := func(k string) bool { _, ok := c.kindStruct[k]; return ok }
	isMapKind := func(k string) bool { return k == "ctxMap" || k == "blocksMap" || k == "macrosMap" }
	known := func(k string) bool { return isStructKind(k) || isMapKind(k) }

	// ---- Get / Put sites, assigns, clears ------------------------------------------------------
	var gets, puts, assigns, clears []plsSite
	relFuncs := map[types.Object]string{} // function object ↦ kind it releases (contains the Put)
	for _, u := range c.units {
		ordG, ordP := map[string]int{}, map[string]int{}
		kindsGot := &plsSet{}
		fuWalk(u.root, func(n ast.Node, stack []ast.Node) bool {
			call, ok := n.(*ast.CallExpr)
			if !ok {
				return true
			}
			if _, o, ok := fuPoolCall(p, call, "Get"); ok && o != nil {
				if k := c.poolKind[o]; known(k) {
					gets = append(gets, plsSite{kind: k, fn: u.name, ord: ordG[k], pool: o.Name(), flag: u.fd == nil})
					ordG[k]++
					if isStructKind(k) {
						kindsGot.add(k)
					}
				}
			}
			if _, o, ok := fuPoolCall(p, call, "Put"); ok && o != nil && len(call.Args) == 1 {
				k := c.poolKind[o]
				if u.fd != nil && k != "" {
					if fo := p.Info.Defs[u.fd.Name]; fo != nil {
						relFuncs[fo] = k
					}
				}
				if !known(k) {
					return true
				}
				site := plsSite{kind: k, fn: u.name, ord: ordP[k], pool: o.Name()}
				ordP[k]++
				if isMapKind(k) {
					// the statement before the Put in its block
					site.flag = false
					for i := len(stack) - 1; i >= 1; i-- {
						blk, ok := stack[i-1].(*ast.BlockStmt)
						if !ok {
							continue
						}
						for j, st := range blk.List {
							if st == stack[i] && j > 0 {
								if m, ok := fuIsClearLoop(p, blk.List[j-1]); ok && fuSameExpr(p, m, call.Args[0]) {
									site.flag = true
								}
							}
						}
						break
					}
					puts = append(puts, site)
					return true
				}
				puts = append(puts, site)
				// zero assignments before the Put in the enclosing blocks
				cl := &plsSet{}
				full := append(append([]ast.Node{}, stack...), n)
				for i := 0; i+1 < len(full); i++ {
					blk, ok := full[i].(*ast.BlockStmt)
					if !ok {
						continue
					}
					for _, st := range blk.List {
						if st == full[i+1] {
							break
						}
						as, ok := st.(*ast.AssignStmt)
						if !ok || as.Tok != token.ASSIGN || len(as.Lhs) != len(as.Rhs) {
							continue
						}
						for j, l := range as.Lhs {
							if fk, f, _, ok := c.kindField(l); ok && fk == k && fuIsZero(p, as.Rhs[j]) {
								cl.add(f.Name())
							}
						}
					}
				}
				clears = append(clears, plsSite{kind: k, fn: u.name, ord: site.ord, fields: cl.order})
			}
			return true
		})
		for _, k := range kindsGot.order {
			var body []ast.Stmt
			if u.fd != nil {
				body = u.fd.Body.List
			}
			a := c.assignedOnEveryPath(body, k, c.pooledObjects(u, k))
			assigns = append(assigns, plsSite{kind: k, fn: u.name, fields: a.order})
		}
	}

	// ---- reads ---------------------------------------------------------------------------------
	type rd struct {
		fns   map[string]bool
		units []fuUnit
	}
	reads := map[string]*rd{} // "kind.field"
	for _, u := range c.units {
		fuWalk(u.root, func(n ast.Node, stack []ast.Node) bool {
			sel, ok := n.(*ast.SelectorExpr)
			if !ok {
				return true
			}
			k, f, _, ok := c.kindField(sel)
			if !ok {
				return true
			}
			// skip parens above
			i := len(stack) - 1
			var child ast.Node = sel
			for i >= 0 {
				if pe, ok := stack[i].(*ast.ParenExpr); ok {
					child = pe
					i--
					continue
				}
				break
			}
			if i >= 0 {
				if as, ok := stack[i].(*ast.AssignStmt); ok {
					for j, l := range as.Lhs {
						if l == child && (as.Tok == token.ASSIGN || as.Tok == token.DEFINE) {
							return true // pure write
						}
						// plain copy of the same field: y.f = x.f
						if as.Tok == token.ASSIGN && len(as.Lhs) == len(as.Rhs) && as.Rhs[j] == child {
							if _, lf, _, ok := c.kindField(l); ok && lf == f {
								return true
							}
						}
					}
				}
			}
			key := k + "." + f.Name()
			if reads[key] == nil {
				reads[key] = &rd{fns: map[string]bool{}}
			}
			if !reads[key].fns[u.name] {
				reads[key].fns[u.name] = true
				reads[key].units = append(reads[key].units, u)
			}
			return true
		})
	}
	internOnly := func(k, f string) (string, bool) {
		r := reads[k+"."+f]
		if r == nil || len(r.units) != 1 || r.units[0].fd == nil {
			return "", false
		}
		return r.units[0].name, c.isInternFunc(r.units[0].fd, k, f)
	}

	// ---- release call sites -------------------------------------------------------------------
	// wrappers: methods whose body is exactly one call of a release function with the receiver as argument
	relCallable := map[types.Object]string{}
	for o, k := range relFuncs {
		relCallable[o] = k
	}
	for _, u := range c.units {
		if u.fd == nil || u.fd.Recv == nil || len(u.fd.Body.List) != 1 {
			continue
		}
		es, ok := u.fd.Body.List[0].(*ast.ExprStmt)
		if !ok {
			continue
		}
		call, ok := es.X.(*ast.CallExpr)
		if !ok {
			continue
		}
		if fn := fuCallee(p, call); fn != nil {
			if k, ok := relFuncs[fn]; ok {
				relCallable[p.Info.Defs[u.fd.Name]] = k
			}
		}
	}
	var parseOuter types.Object
	if o := p.Types.Scope().Lookup("Parser"); o != nil {
		parseOuter, _, _ = types.LookupFieldOrMethod(types.NewPointer(o.Type()), true, p.Types, "parseOuterTemplate")
	}
	if parseOuter == nil {
		c.unk("method (*Parser).parseOuterTemplate not found")
	}
	type relSite struct {
		fn       string
		ord      int
		deferred bool
		what     string
	}
	var rootSites, childSites []relSite
	type tokSite struct {
		fn    string
		ord   int
		order string
	}
	var tokSites []tokSite
	for _, u := range c.units {
		if u.fd != nil {
			if _, isRel := relCallable[p.Info.Defs[u.fd.Name]]; isRel {
				continue
			}
		}
		ordR, ordC, ordT := 0, 0, 0
		// top-level statement index of the token read
		readIdx := -1
		var top []ast.Stmt
		if u.fd != nil {
			top = u.fd.Body.List
			for i, st := range top {
				ast.Inspect(st, func(n ast.Node) bool {
					if call, ok := n.(*ast.CallExpr); ok && parseOuter != nil && fuCallee(p, call) == parseOuter && readIdx < 0 {
						readIdx = i
					}
					return true
				})
			}
		}
		fuWalk(u.root, func(n ast.Node, stack []ast.Node) bool {
			call, ok := n.(*ast.CallExpr)
			if !ok {
				return true
			}
			kind := ""
			what := ""
			if fn := fuCallee(p, call); fn != nil {
				if k, ok := relCallable[fn]; ok {
					kind, what = k, fn.Name()
				} else if fn.Name() == "Release" {
					// a method Release reached through an interface value: cannot tell what it releases
					if sel, ok := call.Fun.(*ast.SelectorExpr); ok {
						if s := p.Info.Selections[sel]; s != nil {
							if _, isIface := s.Recv().Underlying().(*types.Interface); isIface {
								kind, what = "node:?", "interface Release"
							}
						}
					}
				}
			}
			switch {
			case kind == "root":
				rootSites = append(rootSites, relSite{u.name, ordR, fuInDefer(stack), what})
				ordR++
			case strings.HasPrefix(kind, "node:"):
				childSites = append(childSites, relSite{u.name, ordC, fuInDefer(stack), what})
				ordC++
			case kind == "tokenizer":
				order := "noRead"
				if readIdx >= 0 {
					// index of the top-level statement holding this call
					idx := -1
					for i, st := range top {
						if st.Pos() <= call.Pos() && call.End() <= st.End() {
							idx = i
						}
					}
					switch {
					case fuInDefer(stack):
						order = "deferred"
					case idx >= 0 && idx < readIdx:
						order = "before"
					case idx > readIdx:
						order = "after"
					default:
						order = "unknown"
					}
				}
				tokSites = append(tokSites, tokSite{u.name, ordT, order})
				ordT++
			}
			return true
		})
	}

	// ---- output ---------------------------------------------------------------------------------
	var sb strings.Builder
	sb.WriteString(header("Pools", "object pools: pooled structs and their fields, what the acquire functions assign, what the release functions zero, who reads what, release call sites"))

	var rows []string
	type pv struct{ kind, name string }
	var pvs []pv
	for o, k := range c.poolKind {
		if known(k) {
			pvs = append(pvs, pv{k, o.Name()})
		}
	}
	sort.Slice(pvs, func(i, j int) bool {
		if pvs[i].kind != pvs[j].kind {
			return pvs[i].kind < pvs[j].kind
		}
		return pvs[i].name < pvs[j].name
	})
	for _, v := range pvs {
		rows = append(rows, fmt.Sprintf("(%s, %s)", leanStr(v.kind), leanStr(v.name)))
	}
	fuTable(&sb, "(kind, sync.Pool variable serving it)", "poolVars", "List (String × String)", rows)

	nNodePools := 0
	for _, k := range c.poolKind {
		if strings.HasPrefix(k, "node:") {
			nNodePools++
		}
	}
	fmt.Fprintf(&sb, "/-- number of pools whose objects are of a type implementing `Node` other than RootNode -/\ndef childNodePools : Nat := %d\n\n", nNodePools)

	rows = nil
	seen := map[string]bool{}
	for _, sk := range plsStructKinds {
		for _, sn := range c.kindStruct[sk.kind] {
			if seen[sn] {
				continue
			}
			seen[sn] = true
			st := fuStruct(p, sn)
			var fs []string
			for i := 0; i < st.NumFields(); i++ {
				fs = append(fs, st.Field(i).Name())
			}
			rows = append(rows, fmt.Sprintf("(%s, %s)", leanStr(sn), fuStrList(fs)))
		}
	}
	fuTable(&sb, "(struct, declared fields)", "structFields", "List (String × List String)", rows)

	rows = nil
	for _, sk := range plsStructKinds {
		rows = append(rows, fmt.Sprintf("(%s, %s)", leanStr(sk.kind), fuStrList(c.kindFields[sk.kind])))
	}
	fuTable(&sb, "(kind, fields of the pooled object; a struct-valued field of a package-local struct type is replaced by that struct's fields)", "kindFields", "List (String × List String)", rows)

	rows = nil
	for _, s := range gets {
		rows = append(rows, fmt.Sprintf("(%s, %s, %d, %s, %s)", leanStr(s.kind), leanStr(s.fn), s.ord, leanStr(s.pool), leanBool(s.flag)))
	}
	fuTable(&sb, "every `<pool>.Get()`: (kind, enclosing function, ordinal, pool variable, the site is in the initialiser of a package-level variable, e.g. another pool's New function)", "getSites", "List (String × String × Nat × String × Bool)", rows)

	rows = nil
	for _, s := range puts {
		rows = append(rows, fmt.Sprintf("(%s, %s, %d, %s, %s)", leanStr(s.kind), leanStr(s.fn), s.ord, leanStr(s.pool), leanBool(s.flag)))
	}
	fuTable(&sb, "every `<pool>.Put(x)`: (kind, enclosing function, ordinal, pool variable, map kinds: preceded in its block by `for k := range x { delete(x, k) }`)", "putSites", "List (String × String × Nat × String × Bool)", rows)

	rows = nil
	for _, s := range assigns {
		rows = append(rows, fmt.Sprintf("(%s, %s, %s)", leanStr(s.kind), leanStr(s.fn), fuStrList(s.fields)))
	}
	fuTable(&sb, "(kind, function that takes an object of the kind out of its pool, fields of that object it assigns on every path)", "assigns", "List (String × String × List String)", rows)

	rows = nil
	for _, s := range clears {
		rows = append(rows, fmt.Sprintf("(%s, %s, %d, %s)", leanStr(s.kind), leanStr(s.fn), s.ord, fuStrList(s.fields)))
	}
	fuTable(&sb, "(kind, function holding the Put, ordinal of the Put, fields zeroed before it)", "clears", "List (String × String × Nat × List String)", rows)

	rows = nil
	for _, sk := range plsStructKinds {
		for _, f := range c.kindFields[sk.kind] {
			n := 0
			if r := reads[sk.kind+"."+f]; r != nil {
				n = len(r.units)
			}
			fn, intern := internOnly(sk.kind, f)
			if !intern {
				fn = ""
			}
			rows = append(rows, fmt.Sprintf("(%s, %s, %d, %s, %s)", leanStr(sk.kind), leanStr(f), n, leanBool(intern), leanStr(fn)))
		}
	}
	fuTable(&sb, "(kind, field, number of functions reading it, all reads are in one intern-table lookup whose result equals its argument, that function)", "reads", "List (String × String × Nat × Bool × String)", rows)

	rows = nil
	for _, s := range rootSites {
		rows = append(rows, fmt.Sprintf("(%s, %d, %s, %s)", leanStr(s.fn), s.ord, leanBool(s.deferred), leanStr(s.what)))
	}
	fuTable(&sb, "calls that hand a RootNode back to its pool, outside the release function and its wrapper: (function, ordinal, deferred, callee)", "rootReleaseSites", "List (String × Nat × Bool × String)", rows)

	rows = nil
	for _, s := range childSites {
		rows = append(rows, fmt.Sprintf("(%s, %d, %s, %s)", leanStr(s.fn), s.ord, leanBool(s.deferred), leanStr(s.what)))
	}
	fuTable(&sb, "calls that hand any other node back to its pool (or call `Release` through an interface), outside the release functions and wrappers", "childReleaseSites", "List (String × Nat × Bool × String)", rows)

	sb.WriteString("inductive Order | before | after | deferred | noRead | unknown\nderiving DecidableEq, Repr\n\n")
	rows = nil
	for _, s := range tokSites {
		rows = append(rows, fmt.Sprintf("(%s, %d, .%s)", leanStr(s.fn), s.ord, s.order))
	}
	fuTable(&sb, "calls of the tokenizer release function: (function, ordinal, position relative to the call of parseOuterTemplate in that function)", "tokRelease", "List (String × Nat × Order)", rows)

	rows = nil
	for _, u := range c.unknown {
		rows = append(rows, leanStr(u))
	}
	fuTable(&sb, "constructs that fitted no schema (must be empty)", "unknown", "List String", rows)
	sb.WriteString(footer("Pools"))
	var err error
	if len(c.unknown) > 0 {
		err = fmt.Errorf("%d construct(s) not recognised: %s", len(c.unknown), strings.Join(c.unknown, "; "))
	}
	return sb.String(), err
}

// isInternFunc: fd is a method with one string parameter s and a string result; every return yields s,
// or the value variable c of `for _, c := range <recv>.<field>` inside `if c == s`.
func (c *plsCtx) isInternFunc(fd *ast.FuncDecl, kind, field string) bool {
	p := c.p
	if fd.Type.Params == nil || len(fd.Type.Params.List) != 1 || len(fd.Type.Params.List[0].Names) != 1 ||
		fd.Type.Results == nil || len(fd.Type.Results.List) != 1 {
		return false
	}
	param := p.Info.Defs[fd.Type.Params.List[0].Names[0]]
	if param == nil || !isStringObj(param) {
		return false
	}
	ok := true
	nret := 0
	fuWalk(fd.Body, func(n ast.Node, stack []ast.Node) bool {
		if _, isLit := n.(*ast.FuncLit); isLit {
			ok = false
			return false
		}
		rs, isRet := n.(*ast.ReturnStmt)
		if !isRet {
			return true
		}
		nret++
		if len(rs.Results) != 1 {
			ok = false
			return true
		}
		o := fuObj(p, rs.Results[0])
		if o == nil {
			ok = false
			return true
		}
		if o == param {
			return true
		}
		// range variable under `if c == s`
		good := false
		ri := fuEnclosing(stack, func(x ast.Node) bool { _, ok := x.(*ast.RangeStmt); return ok })
		ii := fuEnclosing(stack, func(x ast.Node) bool { _, ok := x.(*ast.IfStmt); return ok })
		if ri >= 0 && ii > ri {
			r := stack[ri].(*ast.RangeStmt)
			ifs := stack[ii].(*ast.IfStmt)
			if r.Value != nil && fuObj(p, r.Value) == o {
				if k, f, _, isF := c.kindField(r.X); isF && k == kind && f.Name() == field {
					if be, isB := ifs.Cond.(*ast.BinaryExpr); isB && be.Op == token.EQL {
						a, b := fuObj(p, be.X), fuObj(p, be.Y)
						if (a == o && b == param) || (a == param && b == o) {
							good = true
						}
					}
				}
			}
		}
		if !good {
			ok = false
		}
		return true
	})
	return ok && nret > 0
}
