package main

import (
	"fmt"
	"go/ast"
	"go/constant"
	"go/token"
	"go/types"
	"sort"
	"strings"
)

// ErrFlow: where the render path lets go of an error value (property C17).
//
// Scope: every function of node.go, render.go, render_filter.go, whitespace.go; functionParent of
// extension.go; Render / RenderTo / Load of twig.go.  A site is a statement at which a value of type
// `error` produced by a call is tested, discarded or re-wrapped:
//
//	blank     `_ = f()` / `x, _ := f()` / `x, _ = f()` with the blank in an error position
//	exprstmt  `f()` as a statement, f returning an error            (writers that cannot fail are exempt)
//	check     `if err != nil { … }`:  returned  – some return in the block mentions err (directly, through
//	                                             a %w wrap or a constructor call)
//	                                  flattened – err reaches a return only through fmt.Errorf with %s/%v
//	                                  replaced  – the block returns, but nothing that mentions err
//	                                  swallowed – the block does not return at all (falls through / continue)
//	                                  overwritten – err is assigned again in the block before it is returned
//	eqnil     `if … err == nil … { … }` without an else branch that returns err: the failure case is skipped
//	cmp       `err == nil` / `err != nil` used as a value (outside an if condition): the failure becomes a boolean
//
// `dropSites` lists every site that is not `returned`; the proof file carries the justified allow-list.
func init() { registerEmitter("ErrFlow", emitErrFlow) }

type efSite struct {
	fn, kind, class, callee string
	ord                     int
	pos                     token.Pos
}

var efErrorType = types.Universe.Lookup("error").Type()

func efIsErrorType(t types.Type) bool { return t != nil && types.Identical(t, efErrorType) }

// efResultTypes of a call expression (flattened tuple).
func efResultTypes(p *Pkg, call *ast.CallExpr) []types.Type {
	tv, ok := p.Info.Types[call]
	if !ok || tv.Type == nil {
		return nil
	}
	if tup, ok := tv.Type.(*types.Tuple); ok {
		var out []types.Type
		for i := 0; i < tup.Len(); i++ {
			out = append(out, tup.At(i).Type())
		}
		return out
	}
	return []types.Type{tv.Type}
}

// efCalleeName: "pkg.Func", "Recv.Method" or the printed expression for dynamic calls.
func efCalleeName(p *Pkg, call *ast.CallExpr) string {
	switch f := call.Fun.(type) {
	case *ast.Ident:
		return f.Name
	case *ast.SelectorExpr:
		if s := p.Info.Selections[f]; s != nil {
			recv := s.Recv()
			if ptr, ok := recv.(*types.Pointer); ok {
				recv = ptr.Elem()
			}
			if n, ok := recv.(*types.Named); ok {
				pfx := n.Obj().Name()
				if n.Obj().Pkg() != nil && n.Obj().Pkg() != p.Types {
					pfx = n.Obj().Pkg().Name() + "." + pfx
				}
				return pfx + "." + f.Sel.Name
			}
			return f.Sel.Name
		}
		if id, ok := f.X.(*ast.Ident); ok {
			return id.Name + "." + f.Sel.Name
		}
		return f.Sel.Name
	}
	return "<dynamic>"
}

// efInfallibleWriter: methods of strings.Builder / bytes.Buffer, whose error result is always nil.
func efInfallibleWriter(p *Pkg, call *ast.CallExpr) bool {
	sel, ok := call.Fun.(*ast.SelectorExpr)
	if !ok {
		return false
	}
	s := p.Info.Selections[sel]
	if s == nil {
		return false
	}
	recv := s.Recv()
	if ptr, ok := recv.(*types.Pointer); ok {
		recv = ptr.Elem()
	}
	n, ok := recv.(*types.Named)
	if !ok || n.Obj().Pkg() == nil {
		return false
	}
	full := n.Obj().Pkg().Path() + "." + n.Obj().Name()
	return full == "strings.Builder" || full == "bytes.Buffer"
}

// efMentions: the expression tree mentions the object (not inside a nested function literal).
func efMentions(p *Pkg, n ast.Node, obj types.Object) bool {
	found := false
	ast.Inspect(n, func(x ast.Node) bool {
		if found {
			return false
		}
		if _, ok := x.(*ast.FuncLit); ok {
			return false
		}
		if id, ok := x.(*ast.Ident); ok && p.Info.Uses[id] == obj {
			found = true
		}
		return true
	})
	return found
}

// efErrorfFlattens: call is fmt.Errorf whose format consumes `obj` with a verb other than %w.
func efErrorfFlattens(p *Pkg, call *ast.CallExpr, obj types.Object) (isErrorf, flattens bool) {
	sel, ok := call.Fun.(*ast.SelectorExpr)
	if !ok || sel.Sel.Name != "Errorf" {
		return false, false
	}
	if id, ok := sel.X.(*ast.Ident); !ok || id.Name != "fmt" {
		return false, false
	}
	if len(call.Args) == 0 {
		return true, false
	}
	tv, ok := p.Info.Types[call.Args[0]]
	if !ok || tv.Value == nil || tv.Value.Kind() != constant.String {
		return true, true // format not constant: cannot tell, count as flattening
	}
	format := constant.StringVal(tv.Value)
	var verbs []byte
	for i := 0; i < len(format); i++ {
		if format[i] != '%' {
			continue
		}
		i++
		for i < len(format) && strings.IndexByte("+-# 0123456789.*[]", format[i]) >= 0 {
			i++
		}
		if i < len(format) && format[i] != '%' {
			verbs = append(verbs, format[i])
		}
	}
	for k, a := range call.Args[1:] {
		if efMentions(p, a, obj) {
			if k >= len(verbs) || verbs[k] != 'w' {
				return true, true
			}
		}
	}
	return true, false
}

// efClassifyCheckBody: how a block entered when `obj` is a non-nil error treats it.
func efClassifyCheckBody(p *Pkg, fd *ast.FuncDecl, body ast.Node, obj types.Object) string {
	hasReturn, returned, flattened, overwritten := false, false, false, false
	// the error variable is assigned again inside the block: a later `return err` hands back another error
	var reassigned token.Pos
	ast.Inspect(body, func(x ast.Node) bool {
		if _, ok := x.(*ast.FuncLit); ok {
			return false
		}
		if as, ok := x.(*ast.AssignStmt); ok && as.Tok == token.ASSIGN {
			for _, l := range as.Lhs {
				if sbxObjOf(p, l) != obj {
					continue
				}
				// `err = wrap(err, …)` keeps the cause (unless the wrap is a flattening fmt.Errorf)
				if len(as.Rhs) == 1 && efMentions(p, as.Rhs[0], obj) {
					if call, ok := as.Rhs[0].(*ast.CallExpr); ok {
						if is, fl := efErrorfFlattens(p, call, obj); !is || !fl {
							continue
						}
					}
				}
				if reassigned == token.NoPos || as.Pos() < reassigned {
					reassigned = as.Pos()
				}
			}
		}
		return true
	})
	ast.Inspect(body, func(x ast.Node) bool {
		if _, ok := x.(*ast.FuncLit); ok {
			return false
		}
		rs, ok := x.(*ast.ReturnStmt)
		if !ok {
			return true
		}
		hasReturn = true
		for _, res := range rs.Results {
			if !efMentions(p, res, obj) {
				continue
			}
			if reassigned != token.NoPos && rs.Pos() > reassigned {
				overwritten = true
				continue
			}
			if call, ok := res.(*ast.CallExpr); ok {
				if is, fl := efErrorfFlattens(p, call, obj); is {
					if fl {
						flattened = true
					} else {
						returned = true
					}
					continue
				}
			}
			returned = true
		}
		return true
	})
	// err stored into a carrier (`lastErr = err`, `errs = append(errs, …err…)`) that some return of the
	// FUNCTION hands back (directly, or through fmt.Errorf with %w for it)
	if !returned && !flattened && !overwritten {
		var carriers []types.Object
		ast.Inspect(body, func(x ast.Node) bool {
			if as, ok := x.(*ast.AssignStmt); ok && len(as.Lhs) == 1 && len(as.Rhs) == 1 && efMentions(p, as.Rhs[0], obj) {
				if o := sbxObjOf(p, as.Lhs[0]); o != nil && o != obj {
					carriers = append(carriers, o)
				}
			}
			return true
		})
		ast.Inspect(fd.Body, func(x ast.Node) bool {
			if rs, ok := x.(*ast.ReturnStmt); ok {
				for _, res := range rs.Results {
					for _, c := range carriers {
						if !efMentions(p, res, c) {
							continue
						}
						if call, ok := res.(*ast.CallExpr); ok {
							if is, fl := efErrorfFlattens(p, call, c); is {
								if fl {
									flattened = true
								} else {
									returned = true
								}
								continue
							}
						}
						returned = true
					}
				}
			}
			return true
		})
	}
	switch {
	case returned:
		return "returned"
	case overwritten:
		return "overwritten"
	case flattened:
		return "flattened"
	case hasReturn:
		return "replaced"
	default:
		return "swallowed"
	}
}

// efProducerOf: the callee of the most recent assignment to obj before pos in fd ("?" if none is a call).
func efProducerOf(p *Pkg, fd *ast.FuncDecl, obj types.Object, pos token.Pos) string {
	best := "?"
	var bestPos token.Pos
	ast.Inspect(fd.Body, func(x ast.Node) bool {
		as, ok := x.(*ast.AssignStmt)
		if !ok || as.Pos() >= pos || as.Pos() < bestPos {
			return true
		}
		for _, l := range as.Lhs {
			if sbxObjOf(p, l) == obj && len(as.Rhs) == 1 {
				if call, ok := as.Rhs[0].(*ast.CallExpr); ok {
					best, bestPos = efCalleeName(p, call), as.Pos()
				} else if ta, ok := as.Rhs[0].(*ast.TypeAssertExpr); ok {
					_ = ta
				}
			}
		}
		return true
	})
	return best
}

func efInErrFlowScope(file, fn string) bool {
	switch file {
	case "node.go", "render.go", "render_filter.go", "whitespace.go":
		return true
	case "extension.go":
		return strings.HasSuffix(fn, ".functionParent") || fn == "functionParent"
	case "twig.go":
		for _, s := range []string{"Render", "RenderTo", "Load"} {
			if fn == s || strings.HasSuffix(fn, "."+s) {
				return true
			}
		}
	}
	return false
}

// errOperand: cond has a conjunct/disjunct `x <op> nil` with x an error-typed identifier; returns its object.
func efErrNilTests(p *Pkg, cond ast.Expr, op token.Token) []types.Object {
	var out []types.Object
	ast.Inspect(cond, func(x ast.Node) bool {
		if _, ok := x.(*ast.FuncLit); ok {
			return false
		}
		be, ok := x.(*ast.BinaryExpr)
		if !ok || be.Op != op {
			return true
		}
		if tv, ok := p.Info.Types[be.Y]; !ok || !tv.IsNil() {
			return true
		}
		if id, ok := be.X.(*ast.Ident); ok {
			if o := p.Info.Uses[id]; o != nil && efIsErrorType(o.Type()) {
				out = append(out, o)
			}
		}
		return true
	})
	return out
}

func emitErrFlow(p *Pkg) (string, error) {
	var sites []efSite
	for fi, f := range p.Files {
		file := p.Names[fi]
		for _, d := range f.Decls {
			fd, ok := d.(*ast.FuncDecl)
			if !ok || fd.Body == nil {
				continue
			}
			key := funcKey(fd)
			if !efInErrFlowScope(file, key) {
				continue
			}
			ord := map[string]int{}
			add := func(kind, class, callee string, pos token.Pos) {
				sites = append(sites, efSite{key, kind, class, callee, ord[kind], pos})
				ord[kind]++
			}
			inCond := map[ast.Node]bool{}
			ast.Inspect(fd.Body, func(n ast.Node) bool {
				if ifs, ok := n.(*ast.IfStmt); ok {
					ast.Inspect(ifs.Cond, func(c ast.Node) bool {
						if c != nil {
							inCond[c] = true
						}
						return true
					})
				}
				return true
			})
			ast.Inspect(fd.Body, func(n ast.Node) bool {
				switch st := n.(type) {
				case *ast.BinaryExpr:
					// an error compared with nil outside an if condition: the failure becomes a boolean
					if !inCond[st] && (st.Op == token.EQL || st.Op == token.NEQ) {
						if tv, ok := p.Info.Types[st.Y]; ok && tv.IsNil() {
							if id, ok := st.X.(*ast.Ident); ok {
								if o := p.Info.Uses[id]; o != nil && efIsErrorType(o.Type()) {
									add("cmp", "converted", efProducerOf(p, fd, o, st.Pos()), st.Pos())
								}
							}
						}
					}
				case *ast.AssignStmt:
					if len(st.Rhs) == 1 {
						if call, ok := st.Rhs[0].(*ast.CallExpr); ok {
							rts := efResultTypes(p, call)
							if len(rts) == len(st.Lhs) {
								for i, l := range st.Lhs {
									if id, ok := l.(*ast.Ident); ok && id.Name == "_" && efIsErrorType(rts[i]) {
										add("blank", "dropped", efCalleeName(p, call), st.Pos())
									}
								}
							}
						}
					}
				case *ast.ExprStmt:
					if call, ok := st.X.(*ast.CallExpr); ok && !efInfallibleWriter(p, call) {
						for _, t := range efResultTypes(p, call) {
							if efIsErrorType(t) {
								add("exprstmt", "dropped", efCalleeName(p, call), st.Pos())
								break
							}
						}
					}
				case *ast.IfStmt:
					for _, obj := range efErrNilTests(p, st.Cond, token.NEQ) {
						// only the plain form `if err != nil` (possibly `if …; err != nil`, or && with other tests)
						add("check", efClassifyCheckBody(p, fd, st.Body, obj), efProducerOf(p, fd, obj, st.Body.Pos()), st.Pos())
					}
					for _, obj := range efErrNilTests(p, st.Cond, token.EQL) {
						class := "swallowed"
						if st.Else != nil && efClassifyCheckBody(p, fd, st.Else, obj) == "returned" {
							class = "returned"
						}
						add("eqnil", class, efProducerOf(p, fd, obj, st.Body.Pos()), st.Pos())
					}
				}
				return true
			})
		}
	}
	sort.SliceStable(sites, func(i, j int) bool { return sites[i].pos < sites[j].pos })

	var sb strings.Builder
	sb.WriteString(header("ErrFlow", "where the render path tests, discards or re-wraps an error value"))
	sb.WriteString("/-- (enclosing function, kind, ordinal of that kind in the function, callee that produced the error, classification) -/\n")
	sb.WriteString("def sites : List (String × String × Nat × String × String) := [\n")
	for i, s := range sites {
		sep := ","
		if i == len(sites)-1 {
			sep = ""
		}
		fmt.Fprintf(&sb, "  (%s, %s, %d, %s, %s)%s\n", leanStr(s.fn), leanStr(s.kind), s.ord, leanStr(s.callee), leanStr(s.class), sep)
	}
	sb.WriteString("]\n\n")
	sb.WriteString("/-- every site that does not hand the error on unchanged (or %w-wrapped) -/\n")
	sb.WriteString("def dropSites : List (String × String × Nat × String × String) := sites.filter (·.2.2.2.2 != \"returned\")\n\n")
	sb.WriteString("def returnedCount : Nat := (sites.filter (·.2.2.2.2 == \"returned\")).length\n")
	sb.WriteString(footer("ErrFlow"))
	var err error
	if len(sites) == 0 {
		err = fmt.Errorf("no error-handling site found in the render path")
	}
	return sb.String(), err
}
