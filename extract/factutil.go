package main

// Helpers shared by the fact-tie emitters (Pools, AttrCache, Registry, CodecLayout, FilterFacts).
// Every name here starts with `fu` to stay clear of the other emitters' helpers.

import (
	"fmt"
	"go/ast"
	"go/constant"
	"go/token"
	"go/types"
	"sort"
	"strings"
)

// fuUnit is a piece of code with a name: a function/method body ("Recv.Name" / "Name") or the
// initialiser of a package-level variable ("var <name>").
type fuUnit struct {
	name string
	file string
	root ast.Node
	fd   *ast.FuncDecl // nil for a variable initialiser
}

// fuUnits lists every unit of the package in (file, position) order.
func fuUnits(p *Pkg) []fuUnit {
	var out []fuUnit
	for i, f := range p.Files {
		for _, d := range f.Decls {
			switch x := d.(type) {
			case *ast.FuncDecl:
				if x.Body != nil {
					out = append(out, fuUnit{funcKey(x), p.Names[i], x.Body, x})
				}
			case *ast.GenDecl:
				if x.Tok != token.VAR {
					continue
				}
				for _, s := range x.Specs {
					vs := s.(*ast.ValueSpec)
					if len(vs.Values) == 0 || len(vs.Names) == 0 {
						continue
					}
					out = append(out, fuUnit{"var " + vs.Names[0].Name, p.Names[i], vs, nil})
				}
			}
		}
	}
	return out
}

// fuWalk visits every node below root with the stack of its ancestors (root first, node excluded).
func fuWalk(root ast.Node, visit func(n ast.Node, stack []ast.Node) bool) {
	var stack []ast.Node
	ast.Inspect(root, func(n ast.Node) bool {
		if n == nil {
			stack = stack[:len(stack)-1]
			return false
		}
		ok := visit(n, stack)
		if ok {
			stack = append(stack, n)
		}
		return ok
	})
}

func fuUnparen(e ast.Expr) ast.Expr {
	for {
		pe, ok := e.(*ast.ParenExpr)
		if !ok {
			return e
		}
		e = pe.X
	}
}

// fuObj: the object an identifier expression denotes (nil otherwise).
func fuObj(p *Pkg, e ast.Expr) types.Object {
	if id, ok := fuUnparen(e).(*ast.Ident); ok {
		if o := p.Info.Uses[id]; o != nil {
			return o
		}
		return p.Info.Defs[id]
	}
	return nil
}

// fuRootObj strips selectors, indexing, slicing, stars, address-of and parens and returns the
// object of the identifier at the bottom (nil if the bottom is not an identifier).
func fuRootObj(p *Pkg, e ast.Expr) types.Object {
	for {
		switch x := e.(type) {
		case *ast.ParenExpr:
			e = x.X
		case *ast.SelectorExpr:
			if s := p.Info.Selections[x]; s == nil {
				return nil // qualified identifier
			}
			e = x.X
		case *ast.IndexExpr:
			e = x.X
		case *ast.SliceExpr:
			e = x.X
		case *ast.StarExpr:
			e = x.X
		case *ast.UnaryExpr:
			if x.Op != token.AND {
				return nil
			}
			e = x.X
		case *ast.Ident:
			return fuObj(p, x)
		default:
			return nil
		}
	}
}

// fuNamed: name of the package-level named type behind t (through one pointer), "" otherwise.
func fuNamed(p *Pkg, t types.Type) string {
	if t == nil {
		return ""
	}
	if pt, ok := t.(*types.Pointer); ok {
		t = pt.Elem()
	}
	if n, ok := t.(*types.Named); ok && n.Obj() != nil && n.Obj().Pkg() == p.Types {
		return n.Obj().Name()
	}
	return ""
}

// fuQualNamed: "pkg.Name" of a named type from any package (through one pointer), "" otherwise.
func fuQualNamed(t types.Type) string {
	if t == nil {
		return ""
	}
	if pt, ok := t.(*types.Pointer); ok {
		t = pt.Elem()
	}
	if n, ok := t.(*types.Named); ok && n.Obj() != nil {
		if n.Obj().Pkg() == nil {
			return n.Obj().Name()
		}
		return n.Obj().Pkg().Name() + "." + n.Obj().Name()
	}
	return ""
}

// fuStruct: the struct type declared under `name` in the package (nil if none).
func fuStruct(p *Pkg, name string) *types.Struct {
	o := p.Types.Scope().Lookup(name)
	if o == nil {
		return nil
	}
	s, _ := o.Type().Underlying().(*types.Struct)
	return s
}

// fuFieldSel: e is a selector that selects a struct FIELD; returns the field object and the base.
func fuFieldSel(p *Pkg, e ast.Expr) (*types.Var, ast.Expr, bool) {
	sel, ok := fuUnparen(e).(*ast.SelectorExpr)
	if !ok {
		return nil, nil, false
	}
	s := p.Info.Selections[sel]
	if s == nil || s.Kind() != types.FieldVal {
		return nil, nil, false
	}
	v, ok := s.Obj().(*types.Var)
	return v, sel.X, ok
}

// fuCallee: the statically known function or method a call invokes (nil for dynamic calls, conversions, builtins).
func fuCallee(p *Pkg, call *ast.CallExpr) *types.Func {
	switch f := fuUnparen(call.Fun).(type) {
	case *ast.Ident:
		fn, _ := p.Info.Uses[f].(*types.Func)
		return fn
	case *ast.SelectorExpr:
		if s := p.Info.Selections[f]; s != nil {
			fn, _ := s.Obj().(*types.Func)
			return fn
		}
		fn, _ := p.Info.Uses[f.Sel].(*types.Func) // pkg.Func
		return fn
	}
	return nil
}

// fuCalleeQual: "pkg.Func" for a package-level function of another package, "(pkg.T).M" for a method.
func fuCalleeQual(p *Pkg, call *ast.CallExpr) string {
	fn := fuCallee(p, call)
	if fn == nil {
		return ""
	}
	sig, _ := fn.Type().(*types.Signature)
	if sig != nil && sig.Recv() != nil {
		return "(" + fuQualNamed(sig.Recv().Type()) + ")." + fn.Name()
	}
	if fn.Pkg() != nil {
		return fn.Pkg().Name() + "." + fn.Name()
	}
	return fn.Name()
}

func fuIsBuiltin(p *Pkg, call *ast.CallExpr, name string) bool {
	id, ok := fuUnparen(call.Fun).(*ast.Ident)
	if !ok || id.Name != name {
		return false
	}
	_, isB := p.Info.Uses[id].(*types.Builtin)
	return isB
}

// fuIsSyncPool: t is sync.Pool or *sync.Pool.
func fuIsSyncPool(t types.Type) bool { return fuQualNamed(t) == "sync.Pool" }

// fuPoolCall: call is `<X>.Get()` / `<X>.Put(a)` with X of type sync.Pool; returns X and its object
// (package-level variable or struct field; nil if X is something else).
func fuPoolCall(p *Pkg, call *ast.CallExpr, method string) (ast.Expr, types.Object, bool) {
	sel, ok := fuUnparen(call.Fun).(*ast.SelectorExpr)
	if !ok || sel.Sel.Name != method {
		return nil, nil, false
	}
	s := p.Info.Selections[sel]
	if s == nil || s.Kind() != types.MethodVal || !fuIsSyncPool(s.Recv()) {
		return nil, nil, false
	}
	var o types.Object
	if v, _, ok := fuFieldSel(p, sel.X); ok {
		o = v
	} else {
		o = fuObj(p, sel.X)
	}
	return sel.X, o, true
}

func fuConstInt(p *Pkg, e ast.Expr) (int64, bool) {
	if tv, ok := p.Info.Types[e]; ok && tv.Value != nil && tv.Value.Kind() == constant.Int {
		return constant.Int64Val(tv.Value)
	}
	return 0, false
}

func fuConstStr(p *Pkg, e ast.Expr) (string, bool) {
	if tv, ok := p.Info.Types[e]; ok && tv.Value != nil && tv.Value.Kind() == constant.String {
		return constant.StringVal(tv.Value), true
	}
	return "", false
}

// fuIsZero: e is the nil literal or a constant that is the zero value of its kind.
func fuIsZero(p *Pkg, e ast.Expr) bool {
	tv, ok := p.Info.Types[e]
	if !ok {
		return false
	}
	if tv.IsNil() {
		return true
	}
	if tv.Value == nil {
		return false
	}
	switch tv.Value.Kind() {
	case constant.Bool:
		return !constant.BoolVal(tv.Value)
	case constant.String:
		return constant.StringVal(tv.Value) == ""
	case constant.Int, constant.Float:
		return constant.Sign(tv.Value) == 0
	}
	return false
}

// fuSameExpr: two expressions are the same chain of identifiers / field selections over the same objects.
func fuSameExpr(p *Pkg, a, b ast.Expr) bool {
	a, b = fuUnparen(a), fuUnparen(b)
	switch x := a.(type) {
	case *ast.Ident:
		y, ok := b.(*ast.Ident)
		return ok && fuObj(p, x) != nil && fuObj(p, x) == fuObj(p, y)
	case *ast.SelectorExpr:
		y, ok := b.(*ast.SelectorExpr)
		if !ok {
			return false
		}
		sx, sy := p.Info.Selections[x], p.Info.Selections[y]
		if sx == nil || sy == nil {
			return sx == nil && sy == nil && p.Info.Uses[x.Sel] == p.Info.Uses[y.Sel] && p.Info.Uses[x.Sel] != nil
		}
		return sx.Obj() == sy.Obj() && fuSameExpr(p, x.X, y.X)
	}
	return false
}

// fuIsClearLoop: st is `for k := range <m> { delete(<m>, k) }`; returns <m>.
func fuIsClearLoop(p *Pkg, st ast.Stmt) (ast.Expr, bool) {
	rs, ok := st.(*ast.RangeStmt)
	if !ok || rs.Key == nil || rs.Value != nil || len(rs.Body.List) != 1 {
		return nil, false
	}
	es, ok := rs.Body.List[0].(*ast.ExprStmt)
	if !ok {
		return nil, false
	}
	call, ok := es.X.(*ast.CallExpr)
	if !ok || !fuIsBuiltin(p, call, "delete") || len(call.Args) != 2 {
		return nil, false
	}
	if !fuSameExpr(p, call.Args[0], rs.X) || !fuSameExpr(p, call.Args[1], rs.Key) {
		return nil, false
	}
	if _, isMap := p.Info.Types[rs.X].Type.Underlying().(*types.Map); !isMap {
		return nil, false
	}
	return rs.X, true
}

// fuEnclosing: index in stack of the innermost node satisfying pred (-1 if none).
func fuEnclosing(stack []ast.Node, pred func(ast.Node) bool) int {
	for i := len(stack) - 1; i >= 0; i-- {
		if pred(stack[i]) {
			return i
		}
	}
	return -1
}

func fuInDefer(stack []ast.Node) bool {
	return fuEnclosing(stack, func(n ast.Node) bool { _, ok := n.(*ast.DeferStmt); return ok }) >= 0
}

// ---- Lean output helpers ----

func fuStrList(xs []string) string {
	q := make([]string, len(xs))
	for i, x := range xs {
		q[i] = leanStr(x)
	}
	return "[" + strings.Join(q, ", ") + "]"
}

// fuTable writes `def name : ty := [ row, … ]` with one row per line.
func fuTable(sb *strings.Builder, doc, name, ty string, rows []string) {
	if doc != "" {
		fmt.Fprintf(sb, "/-- %s -/\n", doc)
	}
	if len(rows) == 0 {
		fmt.Fprintf(sb, "def %s : %s := []\n\n", name, ty)
		return
	}
	fmt.Fprintf(sb, "def %s : %s := [\n  %s\n]\n\n", name, ty, strings.Join(rows, ",\n  "))
}

func fuSortedKeys[V any](m map[string]V) []string {
	ks := make([]string, 0, len(m))
	for k := range m {
		ks = append(ks, k)
	}
	sort.Strings(ks)
	return ks
}

// fuLeanChar renders a rune as a Lean Nat code point (tables of runes are emitted as numbers so that
// `decide` never has to evaluate Char literals).
func fuLeanRune(r rune) string { return fmt.Sprintf("%d", r) }
