package main

// Emitter `Shared` (property C02): which shared locations the code reads and writes, under which
// mutex, and from which functions.
//
// What is recognised, all by *type* (go/types), never by line number:
//
//   - shared struct types: `Engine`, every struct type reachable from its fields through
//     pointers / map values / slice elements (Environment, Template), every struct type whose
//     pointer implements the `Loader` interface, every struct type of the package that owns a
//     sync.Mutex / sync.RWMutex (GlobalStringCache, Debugger, ...), and the anonymous struct types
//     of package-level variables that own one (attributeCache);
//   - per-call types: the struct type a sync.Pool's `New` constructs (plus struct-valued fields of
//     it), restricted to pools whose Get-wrapper is called by the parse function (tokenizerPool ->
//     TokenizerPooled, ZeroAllocTokenizer);
//   - every package-level variable (type not from package sync) is a location `var:<name>`;
//   - an access row = one selector `x.f` whose selection is a field of one of those types, or one
//     use of such a package-level variable; `write` when it is (the base of) the left side of an
//     assignment / IncDec / the first argument of `delete`; `read` otherwise;
//   - the lock held at an access: a flow walk over the statements of the function keeps the set of
//     mutexes acquired by `x.Lock()/x.RLock()` (method of sync.Mutex/sync.RWMutex by type) and not yet
//     released by `x.Unlock()/x.RUnlock()`; `defer x.Unlock()` keeps it to the end of the function;
//     branches are walked separately and merged by intersection; an unexported plain function
//     inherits the intersection of the locksets of its static call sites ("caller holds the lock");
//   - `conc`: the function is reachable in the call graph (static calls, interface calls resolved to
//     every implementing type of the package, every function whose value is taken) from one of the
//     five concurrent entry points Engine.{Render,RenderTo,Load,ParseTemplate,RegisterString}.
//
// Classification of a location (from the rows of conc functions only: configuration happens before
// concurrent use): lockProtected / readOnly / configOnly / perCall / unsynchronisedWrite / unknown.
//
// Plus: the order of pool release and token reading in the parse function, the engine fields written
// by Render/RenderTo, the source of the base name used for relative template names, and the lock
// regions of the cache check and cache fill in Engine.Load (check-then-act).

import (
	"fmt"
	"go/ast"
	"go/token"
	"go/types"
	"sort"
	"strings"
)

func init() { registerEmitter("Shared", emitShared) }

var sharedEntryPoints = []string{"Engine.Render", "Engine.RenderTo", "Engine.Load", "Engine.ParseTemplate", "Engine.RegisterString"}

type shHeld struct {
	mode   string // "r" | "w"
	region int
}
type shLocks map[string]shHeld

func (l shLocks) clone() shLocks {
	c := shLocks{}
	for k, v := range l {
		c[k] = v
	}
	return c
}
func shMeet(a, b shLocks) shLocks {
	c := shLocks{}
	for k, v := range a {
		if w, ok := b[k]; ok && w.mode == v.mode {
			c[k] = v
		}
	}
	return c
}

type shRow struct {
	fn     string
	ord    int
	owner  string
	field  string
	kind   string // go kind of the field: map slice pointer string bool func interface struct number array chan
	write  bool
	lock   string // "" = none
	mode   string // "none" | "r" | "w"
	region int
	conc   bool
}

func (r shRow) loc() string { return r.owner + "." + r.field }

type shAnalyzer struct {
	p        *Pkg
	shared   map[*types.Struct]string // struct type -> owner name
	perCall  map[string]string        // owner name -> pool var name
	pkgVars  map[*types.Var]bool
	rows     []shRow
	fn       string
	ord      int
	region   int
	entry    map[string]shLocks // inherited locksets (unexported plain functions)
	callLock map[string][]shLocks
	unknown  []string
	decls    map[string]*ast.FuncDecl
}

func shIsSyncType(t types.Type, names ...string) bool {
	if p, ok := t.(*types.Pointer); ok {
		t = p.Elem()
	}
	n, ok := t.(*types.Named)
	if !ok || n.Obj().Pkg() == nil || n.Obj().Pkg().Path() != "sync" {
		return false
	}
	if len(names) == 0 {
		return true
	}
	for _, x := range names {
		if n.Obj().Name() == x {
			return true
		}
	}
	return false
}

func shStructOf(t types.Type) *types.Struct {
	if t == nil {
		return nil
	}
	if p, ok := t.Underlying().(*types.Pointer); ok {
		t = p.Elem()
	}
	s, _ := t.Underlying().(*types.Struct)
	return s
}

func shOwnsMutex(s *types.Struct) bool {
	for i := 0; i < s.NumFields(); i++ {
		if shIsSyncType(s.Field(i).Type(), "Mutex", "RWMutex") {
			return true
		}
	}
	return false
}

func shKind(t types.Type) string {
	switch u := t.Underlying().(type) {
	case *types.Map:
		return "map"
	case *types.Slice:
		return "slice"
	case *types.Pointer:
		return "pointer"
	case *types.Signature:
		return "func"
	case *types.Interface:
		return "interface"
	case *types.Struct:
		return "struct"
	case *types.Array:
		return "array"
	case *types.Chan:
		return "chan"
	case *types.Basic:
		switch {
		case u.Info()&types.IsString != 0:
			return "string"
		case u.Info()&types.IsBoolean != 0:
			return "bool"
		default:
			return "number"
		}
	}
	return "other"
}

// collectShared fills a.shared / a.perCall / a.pkgVars.
func (a *shAnalyzer) collectShared(parseFn *ast.FuncDecl) error {
	scope := a.p.Types.Scope()
	add := func(s *types.Struct, name string) bool {
		if s == nil {
			return false
		}
		if _, ok := a.shared[s]; ok {
			return false
		}
		a.shared[s] = name
		return true
	}
	eng, ok := scope.Lookup("Engine").(*types.TypeName)
	if !ok {
		return fmt.Errorf("type Engine not found")
	}
	// closure over pointer / map value / slice element fields, package-local struct types only
	var visit func(t types.Type)
	visit = func(t types.Type) {
		switch u := t.(type) {
		case *types.Pointer:
			visit(u.Elem())
		case *types.Map:
			visit(u.Elem())
		case *types.Slice:
			visit(u.Elem())
		case *types.Named:
			if u.Obj().Pkg() != a.p.Types {
				return
			}
			if s, ok := u.Underlying().(*types.Struct); ok {
				if add(s, u.Obj().Name()) {
					for i := 0; i < s.NumFields(); i++ {
						visit(s.Field(i).Type())
					}
				}
			}
		}
	}
	visit(eng.Type())
	// loaders
	var loaderIface *types.Interface
	if ln, ok := scope.Lookup("Loader").(*types.TypeName); ok {
		loaderIface, _ = ln.Type().Underlying().(*types.Interface)
	}
	for _, n := range scope.Names() {
		tn, ok := scope.Lookup(n).(*types.TypeName)
		if !ok {
			continue
		}
		s, ok := tn.Type().Underlying().(*types.Struct)
		if !ok {
			continue
		}
		if loaderIface != nil && (types.Implements(types.NewPointer(tn.Type()), loaderIface) || types.Implements(tn.Type(), loaderIface)) {
			add(s, n)
		}
		if shOwnsMutex(s) {
			add(s, n)
		}
	}
	// package-level variables
	for _, n := range scope.Names() {
		v, ok := scope.Lookup(n).(*types.Var)
		if !ok {
			continue
		}
		if shIsSyncType(v.Type()) {
			continue
		}
		a.pkgVars[v] = true
		if s := shStructOf(v.Type()); s != nil && shOwnsMutex(s) {
			if _, named := a.shared[s]; !named {
				add(s, "var:"+n)
			}
		}
	}
	// per-call types: pools whose Get-wrapper is called by the parse function
	if parseFn != nil {
		pools := a.poolsTouchedBy(parseFn, "Get")
		for _, pool := range pools {
			if s, name := a.poolNewType(pool); s != nil {
				var addPC func(s *types.Struct, name string)
				addPC = func(s *types.Struct, name string) {
					if _, ok := a.shared[s]; ok {
						return
					}
					a.shared[s] = name
					a.perCall[name] = pool
					for i := 0; i < s.NumFields(); i++ {
						if n, ok := s.Field(i).Type().(*types.Named); ok && n.Obj().Pkg() == a.p.Types {
							if fs, ok := n.Underlying().(*types.Struct); ok {
								addPC(fs, n.Obj().Name())
							}
						}
					}
				}
				addPC(s, name)
			}
		}
	}
	return nil
}

// poolVarOfCall: `<pkg-level sync.Pool var>.<method>(...)`; returns the var name.
func (a *shAnalyzer) poolVarOfCall(call *ast.CallExpr, method string) string {
	sel, ok := call.Fun.(*ast.SelectorExpr)
	if !ok || sel.Sel.Name != method {
		return ""
	}
	id, ok := sel.X.(*ast.Ident)
	if !ok {
		return ""
	}
	v, ok := a.p.Info.Uses[id].(*types.Var)
	if !ok || v.Parent() != a.p.Types.Scope() || !shIsSyncType(v.Type(), "Pool") {
		return ""
	}
	return v.Name()
}

// poolsOfFunc: pool vars on which fd's body calls `method` directly.
func (a *shAnalyzer) poolsOfFunc(fd *ast.FuncDecl, method string) []string {
	var out []string
	if fd == nil || fd.Body == nil {
		return nil
	}
	ast.Inspect(fd.Body, func(n ast.Node) bool {
		if c, ok := n.(*ast.CallExpr); ok {
			if pv := a.poolVarOfCall(c, method); pv != "" {
				out = append(out, pv)
			}
		}
		return true
	})
	return out
}

// poolsTouchedBy: pools whose Get/Put wrapper function is called (statically) in fd.
func (a *shAnalyzer) poolsTouchedBy(fd *ast.FuncDecl, method string) []string {
	seen := map[string]bool{}
	var out []string
	ast.Inspect(fd.Body, func(n ast.Node) bool {
		c, ok := n.(*ast.CallExpr)
		if !ok {
			return true
		}
		if callee := a.staticCallee(c); callee != "" {
			for _, pv := range a.poolsOfFunc(a.decls[callee], method) {
				if !seen[pv] {
					seen[pv] = true
					out = append(out, pv)
				}
			}
		}
		return true
	})
	sort.Strings(out)
	return out
}

// poolNewType: the struct type constructed by the `New` function of the pool variable.
func (a *shAnalyzer) poolNewType(pool string) (*types.Struct, string) {
	for _, f := range a.p.Files {
		for _, d := range f.Decls {
			gd, ok := d.(*ast.GenDecl)
			if !ok || gd.Tok != token.VAR {
				continue
			}
			for _, sp := range gd.Specs {
				vs := sp.(*ast.ValueSpec)
				for i, nm := range vs.Names {
					if nm.Name != pool || i >= len(vs.Values) {
						continue
					}
					var found *types.Struct
					var fname string
					ast.Inspect(vs.Values[i], func(n ast.Node) bool {
						cl, ok := n.(*ast.CompositeLit)
						if !ok || found != nil {
							return true
						}
						if tv, ok := a.p.Info.Types[cl]; ok {
							if nt, ok := tv.Type.(*types.Named); ok && nt.Obj().Pkg() == a.p.Types {
								if s, ok := nt.Underlying().(*types.Struct); ok {
									found, fname = s, nt.Obj().Name()
								}
							}
						}
						return true
					})
					return found, fname
				}
			}
		}
	}
	return nil, ""
}

func (a *shAnalyzer) funcKeyOf(f *types.Func) string {
	sig, _ := f.Type().(*types.Signature)
	if sig != nil && sig.Recv() != nil {
		t := sig.Recv().Type()
		if p, ok := t.(*types.Pointer); ok {
			t = p.Elem()
		}
		if n, ok := t.(*types.Named); ok {
			return n.Obj().Name() + "." + f.Name()
		}
		return ""
	}
	return f.Name()
}

// staticCallee: key of the package function / concrete method called, "" otherwise.
func (a *shAnalyzer) staticCallee(c *ast.CallExpr) string {
	switch fun := c.Fun.(type) {
	case *ast.Ident:
		if f, ok := a.p.Info.Uses[fun].(*types.Func); ok && f.Pkg() == a.p.Types {
			return a.funcKeyOf(f)
		}
	case *ast.SelectorExpr:
		if sel, ok := a.p.Info.Selections[fun]; ok && sel.Kind() == types.MethodVal {
			if f, ok := sel.Obj().(*types.Func); ok && f.Pkg() == a.p.Types {
				if _, isIface := sel.Recv().Underlying().(*types.Interface); !isIface {
					return a.funcKeyOf(f)
				}
			}
		}
	}
	return ""
}

// ---- mutex operations ----------------------------------------------------------------------------

// mutexOp recognises x.Lock() / x.RLock() / x.Unlock() / x.RUnlock() where the method belongs to
// sync.Mutex or sync.RWMutex; returns the mutex name ("Owner.field") and the operation.
func (a *shAnalyzer) mutexOp(c *ast.CallExpr) (name, op string) {
	sel, ok := c.Fun.(*ast.SelectorExpr)
	if !ok {
		return "", ""
	}
	s, ok := a.p.Info.Selections[sel]
	if !ok || s.Kind() != types.MethodVal {
		return "", ""
	}
	f, ok := s.Obj().(*types.Func)
	if !ok || f.Pkg() == nil || f.Pkg().Path() != "sync" {
		return "", ""
	}
	sig := f.Type().(*types.Signature)
	if sig.Recv() == nil || !shIsSyncType(sig.Recv().Type(), "Mutex", "RWMutex") {
		return "", ""
	}
	switch f.Name() {
	case "Lock", "RLock", "Unlock", "RUnlock":
	default:
		return "", ""
	}
	// the mutex is either the selected expression itself (x.mu.Lock()) or an embedded field of it
	if len(s.Index()) == 1 {
		// sel.X has mutex type: must itself be a field selector
		if inner, ok := sel.X.(*ast.SelectorExpr); ok {
			if is, ok := a.p.Info.Selections[inner]; ok && is.Kind() == types.FieldVal {
				if owner := a.ownerOf(is.Recv()); owner != "" {
					return owner + "." + inner.Sel.Name, f.Name()
				}
			}
		}
		return "unknown:" + a.exprString(sel.X), f.Name()
	}
	// promoted through embedded field(s): owner is the struct type of sel.X
	st := shStructOf(s.Recv())
	if st != nil {
		if owner, ok := a.shared[st]; ok {
			return owner + "." + st.Field(s.Index()[0]).Name(), f.Name()
		}
	}
	return "unknown:" + a.exprString(sel.X), f.Name()
}

func (a *shAnalyzer) ownerOf(t types.Type) string {
	if s := shStructOf(t); s != nil {
		return a.shared[s]
	}
	return ""
}

func (a *shAnalyzer) exprString(e ast.Expr) string { return types.ExprString(e) }

// ---- the flow walk ---------------------------------------------------------------------------------

type shCtx struct {
	locks    shLocks
	deferred shLocks // locks whose unlock has been deferred (held to function end)
}

func (a *shAnalyzer) emit(owner, field, kind string, write bool, cx *shCtx) {
	row := shRow{fn: a.fn, ord: a.ord, owner: owner, field: field, kind: kind, write: write, mode: "none"}
	a.ord++
	// the mutex of the owner if held, otherwise any held mutex (reported, never counted as protection)
	var names []string
	for k := range cx.locks {
		names = append(names, k)
	}
	sort.Strings(names)
	for _, k := range names {
		if strings.HasPrefix(k, owner+".") {
			row.lock, row.mode, row.region = k, cx.locks[k].mode, cx.locks[k].region
			break
		}
	}
	if row.lock == "" && len(names) > 0 {
		k := names[0]
		row.lock, row.mode, row.region = k, cx.locks[k].mode, cx.locks[k].region
	}
	a.rows = append(a.rows, row)
}

// sharedField: is `sel` a field selection on a shared struct type?
func (a *shAnalyzer) sharedField(sel *ast.SelectorExpr) (owner, field, kind string, ok bool) {
	s, found := a.p.Info.Selections[sel]
	if !found || s.Kind() != types.FieldVal {
		return
	}
	// walk the (possibly promoted) path; the final field's owner is what matters
	t := s.Recv()
	idx := s.Index()
	for i, ix := range idx {
		st := shStructOf(t)
		if st == nil {
			return
		}
		f := st.Field(ix)
		if i == len(idx)-1 {
			o, isShared := a.shared[st]
			if !isShared || shIsSyncType(f.Type()) {
				return
			}
			return o, f.Name(), shKind(f.Type()), true
		}
		t = f.Type()
	}
	return
}

func (a *shAnalyzer) pkgVar(id *ast.Ident) (*types.Var, bool) {
	v, ok := a.p.Info.Uses[id].(*types.Var)
	if !ok || !a.pkgVars[v] {
		return nil, false
	}
	return v, true
}

// read walks an expression in read position.
func (a *shAnalyzer) read(e ast.Expr, cx *shCtx) {
	if e == nil {
		return
	}
	switch x := e.(type) {
	case *ast.SelectorExpr:
		a.read(x.X, cx)
		if o, f, k, ok := a.sharedField(x); ok {
			a.emit(o, f, k, false, cx)
		}
	case *ast.Ident:
		if v, ok := a.pkgVar(x); ok {
			a.emit("var", v.Name(), shKind(v.Type()), false, cx)
		}
	case *ast.CallExpr:
		a.call(x, cx)
	case *ast.FuncLit:
		a.funcLit(x, shLocks{})
	case *ast.ParenExpr:
		a.read(x.X, cx)
	case *ast.StarExpr:
		a.read(x.X, cx)
	case *ast.UnaryExpr:
		a.read(x.X, cx)
	case *ast.BinaryExpr:
		a.read(x.X, cx)
		a.read(x.Y, cx)
	case *ast.IndexExpr:
		a.read(x.X, cx)
		a.read(x.Index, cx)
	case *ast.IndexListExpr:
		a.read(x.X, cx)
	case *ast.SliceExpr:
		a.read(x.X, cx)
		a.read(x.Low, cx)
		a.read(x.High, cx)
		a.read(x.Max, cx)
	case *ast.TypeAssertExpr:
		a.read(x.X, cx)
	case *ast.CompositeLit:
		for _, el := range x.Elts {
			if kv, ok := el.(*ast.KeyValueExpr); ok {
				if _, isField := kv.Key.(*ast.Ident); !isField {
					a.read(kv.Key, cx)
				}
				a.read(kv.Value, cx)
			} else {
				a.read(el, cx)
			}
		}
	case *ast.KeyValueExpr:
		a.read(x.Value, cx)
	}
}

// write walks an expression in assignment position: the outermost shared field reached through
// index / value-field / paren / deref steps is written; everything below it is read.
func (a *shAnalyzer) write(e ast.Expr, cx *shCtx) {
	switch x := e.(type) {
	case *ast.SelectorExpr:
		if o, f, k, ok := a.sharedField(x); ok {
			a.read(x.X, cx)
			a.emit(o, f, k, true, cx)
			return
		}
		// a field of a non-shared struct: stored by value inside its container?
		if tv, ok := a.p.Info.Types[x.X]; ok {
			if _, isPtr := tv.Type.Underlying().(*types.Pointer); !isPtr {
				a.write(x.X, cx)
				return
			}
		}
		a.read(x.X, cx)
	case *ast.Ident:
		if v, ok := a.pkgVar(x); ok {
			a.emit("var", v.Name(), shKind(v.Type()), true, cx)
		}
	case *ast.IndexExpr:
		a.read(x.Index, cx)
		a.write(x.X, cx)
	case *ast.ParenExpr:
		a.write(x.X, cx)
	case *ast.StarExpr:
		a.read(x.X, cx)
	case *ast.SliceExpr:
		a.write(x.X, cx)
	default:
		a.read(e, cx)
	}
}

func (a *shAnalyzer) call(c *ast.CallExpr, cx *shCtx) {
	if name, op := a.mutexOp(c); name != "" {
		// receiver expression is read (e.mu -> Engine itself is not a location; skip)
		switch op {
		case "Lock":
			a.region++
			cx.locks[name] = shHeld{"w", a.region}
		case "RLock":
			a.region++
			cx.locks[name] = shHeld{"r", a.region}
		case "Unlock", "RUnlock":
			delete(cx.locks, name)
		}
		if strings.HasPrefix(name, "unknown:") {
			a.unknown = append(a.unknown, a.fn+": mutex "+name)
		}
		return
	}
	// builtin delete(m, k): write m
	if id, ok := c.Fun.(*ast.Ident); ok {
		if b, ok := a.p.Info.Uses[id].(*types.Builtin); ok {
			switch b.Name() {
			case "delete":
				if len(c.Args) == 2 {
					a.read(c.Args[1], cx)
					a.write(c.Args[0], cx)
					return
				}
			case "copy":
				if len(c.Args) == 2 {
					a.read(c.Args[1], cx)
					a.write(c.Args[0], cx)
					return
				}
			}
		}
	}
	if callee := a.staticCallee(c); callee != "" {
		a.callLock[callee] = append(a.callLock[callee], cx.locks.clone())
	}
	a.read(c.Fun, cx)
	for _, arg := range c.Args {
		a.read(arg, cx)
	}
}

func (a *shAnalyzer) funcLit(fl *ast.FuncLit, start shLocks) {
	cx := &shCtx{locks: start.clone(), deferred: shLocks{}}
	a.block(fl.Body.List, cx)
}

// block returns true when control cannot fall out of the end of the list.
func (a *shAnalyzer) block(list []ast.Stmt, cx *shCtx) bool {
	for _, s := range list {
		if a.stmt(s, cx) {
			return true
		}
	}
	return false
}

func (a *shAnalyzer) branch(body []ast.Stmt, cx *shCtx) (*shCtx, bool) {
	c := &shCtx{locks: cx.locks.clone(), deferred: cx.deferred.clone()}
	term := a.block(body, c)
	return c, term
}

func (a *shAnalyzer) merge(cx *shCtx, outs []*shCtx, terms []bool) bool {
	var live []*shCtx
	for i, o := range outs {
		if !terms[i] {
			live = append(live, o)
		}
	}
	if len(live) == 0 {
		return true
	}
	l, d := live[0].locks, live[0].deferred
	for _, o := range live[1:] {
		l = shMeet(l, o.locks)
		d = shMeet(d, o.deferred)
	}
	cx.locks, cx.deferred = l, d
	return false
}

func (a *shAnalyzer) stmt(s ast.Stmt, cx *shCtx) bool {
	switch x := s.(type) {
	case nil:
	case *ast.ExprStmt:
		a.read(x.X, cx)
		if c, ok := x.X.(*ast.CallExpr); ok {
			if id, ok := c.Fun.(*ast.Ident); ok {
				if b, ok := a.p.Info.Uses[id].(*types.Builtin); ok && b.Name() == "panic" {
					return true
				}
			}
		}
	case *ast.AssignStmt:
		for _, r := range x.Rhs {
			a.read(r, cx)
		}
		for _, l := range x.Lhs {
			if x.Tok != token.ASSIGN && x.Tok != token.DEFINE {
				a.read(l, cx) // op-assign reads too
			}
			a.write(l, cx)
		}
	case *ast.IncDecStmt:
		a.read(x.X, cx)
		a.write(x.X, cx)
	case *ast.DeclStmt:
		if gd, ok := x.Decl.(*ast.GenDecl); ok {
			for _, sp := range gd.Specs {
				if vs, ok := sp.(*ast.ValueSpec); ok {
					for _, v := range vs.Values {
						a.read(v, cx)
					}
				}
			}
		}
	case *ast.ReturnStmt:
		for _, r := range x.Results {
			a.read(r, cx)
		}
		return true
	case *ast.BranchStmt:
		return x.Tok != token.FALLTHROUGH
	case *ast.BlockStmt:
		return a.block(x.List, cx)
	case *ast.LabeledStmt:
		return a.stmt(x.Stmt, cx)
	case *ast.IfStmt:
		a.stmt(x.Init, cx)
		a.read(x.Cond, cx)
		o1, t1 := a.branch(x.Body.List, cx)
		var o2 *shCtx
		var t2 bool
		if x.Else != nil {
			o2, t2 = a.branch([]ast.Stmt{x.Else}, cx)
		} else {
			o2, t2 = &shCtx{locks: cx.locks.clone(), deferred: cx.deferred.clone()}, false
		}
		return a.merge(cx, []*shCtx{o1, o2}, []bool{t1, t2})
	case *ast.ForStmt:
		a.stmt(x.Init, cx)
		a.read(x.Cond, cx)
		o, _ := a.branch(append(append([]ast.Stmt{}, x.Body.List...), x.Post), cx)
		a.loopBalanced(cx, o)
	case *ast.RangeStmt:
		a.read(x.X, cx)
		if x.Tok == token.ASSIGN {
			if x.Key != nil {
				a.write(x.Key, cx)
			}
			if x.Value != nil {
				a.write(x.Value, cx)
			}
		}
		o, _ := a.branch(x.Body.List, cx)
		a.loopBalanced(cx, o)
	case *ast.SwitchStmt:
		a.stmt(x.Init, cx)
		a.read(x.Tag, cx)
		return a.clauses(x.Body, cx)
	case *ast.TypeSwitchStmt:
		a.stmt(x.Init, cx)
		a.stmt(x.Assign, cx)
		return a.clauses(x.Body, cx)
	case *ast.SelectStmt:
		return a.clauses(x.Body, cx)
	case *ast.DeferStmt:
		if name, op := a.mutexOp(x.Call); name != "" && (op == "Unlock" || op == "RUnlock") {
			if h, ok := cx.locks[name]; ok {
				cx.deferred[name] = h
			}
			return false
		}
		for _, arg := range x.Call.Args {
			a.read(arg, cx)
		}
		if fl, ok := x.Call.Fun.(*ast.FuncLit); ok {
			// runs at function exit: the locks whose unlock was deferred earlier are still held
			a.funcLit(fl, cx.deferred)
		} else {
			if callee := a.staticCallee(x.Call); callee != "" {
				a.callLock[callee] = append(a.callLock[callee], cx.deferred.clone())
			}
			a.read(x.Call.Fun, cx)
		}
	case *ast.GoStmt:
		for _, arg := range x.Call.Args {
			a.read(arg, cx)
		}
		if fl, ok := x.Call.Fun.(*ast.FuncLit); ok {
			a.funcLit(fl, shLocks{})
		} else {
			a.read(x.Call.Fun, cx)
		}
	case *ast.SendStmt:
		a.read(x.Chan, cx)
		a.read(x.Value, cx)
	}
	return false
}

func (a *shAnalyzer) loopBalanced(cx, after *shCtx) {
	if len(shMeet(cx.locks, after.locks)) != len(cx.locks) || len(after.locks) != len(cx.locks) {
		a.unknown = append(a.unknown, a.fn+": loop body changes the lockset")
		cx.locks = shMeet(cx.locks, after.locks)
	}
}

func (a *shAnalyzer) clauses(body *ast.BlockStmt, cx *shCtx) bool {
	var outs []*shCtx
	var terms []bool
	hasDefault := false
	for _, cl := range body.List {
		var stmts []ast.Stmt
		switch c := cl.(type) {
		case *ast.CaseClause:
			for _, e := range c.List {
				a.read(e, cx)
			}
			if c.List == nil {
				hasDefault = true
			}
			stmts = c.Body
		case *ast.CommClause:
			if c.Comm == nil {
				hasDefault = true
			} else {
				stmts = append(stmts, c.Comm)
			}
			stmts = append(stmts, c.Body...)
		}
		o, t := a.branch(stmts, cx)
		// `break` inside a switch leaves the switch, it does not terminate the function
		if t && endsWithBreak(stmts) {
			t = false
		}
		outs, terms = append(outs, o), append(terms, t)
	}
	if !hasDefault {
		outs, terms = append(outs, &shCtx{locks: cx.locks.clone(), deferred: cx.deferred.clone()}), append(terms, false)
	}
	return a.merge(cx, outs, terms)
}

func endsWithBreak(stmts []ast.Stmt) bool {
	if len(stmts) == 0 {
		return false
	}
	b, ok := stmts[len(stmts)-1].(*ast.BranchStmt)
	return ok && b.Tok == token.BREAK
}

func (a *shAnalyzer) analyzeFunc(key string, fd *ast.FuncDecl) {
	if fd.Body == nil {
		return
	}
	a.fn, a.ord, a.region = key, 0, 0
	start := shLocks{}
	if e, ok := a.entry[key]; ok && e != nil {
		for k, v := range e {
			start[k] = shHeld{v.mode, 0}
		}
	}
	cx := &shCtx{locks: start, deferred: shLocks{}}
	a.block(fd.Body.List, cx)
}

// ---- call graph ------------------------------------------------------------------------------------

func (a *shAnalyzer) reach(roots []string) map[string]bool {
	// named types of the package, for interface-call resolution
	var named []*types.Named
	for _, n := range a.p.Types.Scope().Names() {
		if tn, ok := a.p.Types.Scope().Lookup(n).(*types.TypeName); ok {
			if nt, ok := tn.Type().(*types.Named); ok {
				if _, isIface := nt.Underlying().(*types.Interface); !isIface {
					named = append(named, nt)
				}
			}
		}
	}
	edges := map[string][]string{}
	for key, fd := range a.decls {
		if fd.Body == nil {
			continue
		}
		seen := map[string]bool{}
		addEdge := func(to string) {
			if to != "" && !seen[to] {
				seen[to] = true
				edges[key] = append(edges[key], to)
			}
		}
		calledFuns := map[ast.Expr]bool{}
		ast.Inspect(fd.Body, func(n ast.Node) bool {
			c, ok := n.(*ast.CallExpr)
			if !ok {
				return true
			}
			calledFuns[c.Fun] = true
			if callee := a.staticCallee(c); callee != "" {
				addEdge(callee)
				return true
			}
			// interface method call: every implementing type of the package
			if sel, ok := c.Fun.(*ast.SelectorExpr); ok {
				if s, ok := a.p.Info.Selections[sel]; ok && s.Kind() == types.MethodVal {
					if iface, ok := s.Recv().Underlying().(*types.Interface); ok {
						for _, nt := range named {
							if types.Implements(nt, iface) || types.Implements(types.NewPointer(nt), iface) {
								addEdge(nt.Obj().Name() + "." + sel.Sel.Name)
							}
						}
					}
				}
			}
			return true
		})
		// function values taken (not called): they may be called by anyone later
		ast.Inspect(fd.Body, func(n ast.Node) bool {
			switch x := n.(type) {
			case *ast.Ident:
				if f, ok := a.p.Info.Uses[x].(*types.Func); ok && f.Pkg() == a.p.Types && !calledFuns[x] {
					addEdge(a.funcKeyOf(f))
				}
			case *ast.SelectorExpr:
				if calledFuns[x] {
					return true
				}
				if s, ok := a.p.Info.Selections[x]; ok && s.Kind() == types.MethodVal {
					if f, ok := s.Obj().(*types.Func); ok && f.Pkg() == a.p.Types {
						if _, isIface := s.Recv().Underlying().(*types.Interface); !isIface {
							addEdge(a.funcKeyOf(f))
						}
					}
				}
			}
			return true
		})
	}
	seen := map[string]bool{}
	var stack []string
	for _, r := range roots {
		if _, ok := a.decls[r]; ok {
			seen[r] = true
			stack = append(stack, r)
		}
	}
	for len(stack) > 0 {
		f := stack[len(stack)-1]
		stack = stack[:len(stack)-1]
		for _, t := range edges[f] {
			if _, ok := a.decls[t]; ok && !seen[t] {
				seen[t] = true
				stack = append(stack, t)
			}
		}
	}
	return seen
}

// ---- parse-function facts ----------------------------------------------------------------------------

type shRelease struct {
	pool, fn    string
	deferred    bool
	beforeParse bool
}

// findParseFn: the method of Parser that is called by the five entry points to turn source into
// nodes: method named by the anchor (`Parse`) on the type `Parser`.
func (a *shAnalyzer) parseFacts(fd *ast.FuncDecl) (gets []string, rels []shRelease, parseStep string, tokensFromPooled bool) {
	if fd == nil || fd.Body == nil {
		return
	}
	// the parse step: a call of a method of the same receiver type whose first result is a slice of Node
	var parsePos token.Pos
	recvType := ""
	if fd.Recv != nil && len(fd.Recv.List) == 1 {
		recvType = strings.TrimSuffix(funcKey(fd), "."+fd.Name.Name)
	}
	ast.Inspect(fd.Body, func(n ast.Node) bool {
		c, ok := n.(*ast.CallExpr)
		if !ok || parsePos.IsValid() {
			return true
		}
		callee := a.staticCallee(c)
		if callee == "" || !strings.HasPrefix(callee, recvType+".") {
			return true
		}
		if tv, ok := a.p.Info.Types[c]; ok {
			if tup, ok := tv.Type.(*types.Tuple); ok && tup.Len() >= 1 {
				if sl, ok := tup.At(0).Type().Underlying().(*types.Slice); ok {
					if nt, ok := sl.Elem().(*types.Named); ok && nt.Obj().Name() == "Node" {
						parsePos, parseStep = c.Pos(), callee
					}
				}
			}
		}
		return true
	})
	// gets: calls of functions whose body calls <pool>.Get(); the variable receiving the result
	pooledVars := map[types.Object]bool{}
	ast.Inspect(fd.Body, func(n ast.Node) bool {
		as, ok := n.(*ast.AssignStmt)
		if !ok || len(as.Rhs) != 1 {
			return true
		}
		c, ok := as.Rhs[0].(*ast.CallExpr)
		if !ok {
			return true
		}
		if callee := a.staticCallee(c); callee != "" {
			if ps := a.poolsOfFunc(a.decls[callee], "Get"); len(ps) > 0 {
				gets = append(gets, ps...)
				if id, ok := as.Lhs[0].(*ast.Ident); ok {
					if o := a.p.Info.Defs[id]; o != nil {
						pooledVars[o] = true
					} else if o := a.p.Info.Uses[id]; o != nil {
						pooledVars[o] = true
					}
				}
			}
		}
		return true
	})
	// does the token list come from a method of the pooled object?
	ast.Inspect(fd.Body, func(n ast.Node) bool {
		as, ok := n.(*ast.AssignStmt)
		if !ok || len(as.Rhs) != 1 {
			return true
		}
		c, ok := as.Rhs[0].(*ast.CallExpr)
		if !ok {
			return true
		}
		sel, ok := c.Fun.(*ast.SelectorExpr)
		if !ok {
			return true
		}
		id, ok := sel.X.(*ast.Ident)
		if !ok || !pooledVars[a.p.Info.Uses[id]] {
			return true
		}
		if tv, ok := a.p.Info.Types[as.Lhs[0]]; ok {
			if _, isSlice := tv.Type.Underlying().(*types.Slice); isSlice {
				tokensFromPooled = true
			}
		}
		return true
	})
	// releases: calls of functions whose body calls <pool>.Put(), with position and deferral
	var walk func(n ast.Node, deferred bool)
	walk = func(n ast.Node, deferred bool) {
		ast.Inspect(n, func(m ast.Node) bool {
			switch x := m.(type) {
			case *ast.DeferStmt:
				if fl, ok := x.Call.Fun.(*ast.FuncLit); ok {
					walk(fl.Body, true)
				} else {
					walk(x.Call, true)
				}
				return false
			case *ast.CallExpr:
				if callee := a.staticCallee(x); callee != "" {
					for _, pv := range a.poolsOfFunc(a.decls[callee], "Put") {
						rels = append(rels, shRelease{pool: pv, fn: callee, deferred: deferred,
							beforeParse: !deferred && parsePos.IsValid() && x.Pos() < parsePos})
					}
				}
			}
			return true
		})
	}
	walk(fd.Body, false)
	sort.Strings(gets)
	return
}

// relative names: `filepath.Dir(x)` in a conc function where x was defined from a field of the
// render context (per call) or of the engine (shared).
type shRelSrc struct{ fn, kind, field string }

func (a *shAnalyzer) relSources(conc map[string]bool) []shRelSrc {
	var out []shRelSrc
	var keys []string
	for k := range a.decls {
		keys = append(keys, k)
	}
	sort.Strings(keys)
	for _, key := range keys {
		fd := a.decls[key]
		if fd.Body == nil || !conc[key] {
			continue
		}
		defs := map[types.Object]ast.Expr{}
		ast.Inspect(fd.Body, func(n ast.Node) bool {
			if as, ok := n.(*ast.AssignStmt); ok && len(as.Lhs) == len(as.Rhs) {
				for i, l := range as.Lhs {
					if id, ok := l.(*ast.Ident); ok {
						if o := a.p.Info.Defs[id]; o != nil {
							defs[o] = as.Rhs[i]
						}
					}
				}
			}
			return true
		})
		ast.Inspect(fd.Body, func(n ast.Node) bool {
			c, ok := n.(*ast.CallExpr)
			if !ok || len(c.Args) != 1 {
				return true
			}
			sel, ok := c.Fun.(*ast.SelectorExpr)
			if !ok || sel.Sel.Name != "Dir" {
				return true
			}
			f, ok := a.p.Info.Uses[sel.Sel].(*types.Func)
			if !ok || f.Pkg() == nil || f.Pkg().Path() != "path/filepath" {
				return true
			}
			arg := c.Args[0]
			if id, ok := arg.(*ast.Ident); ok {
				if d, ok := defs[a.p.Info.Uses[id]]; ok {
					arg = d
				}
			}
			src := shRelSrc{fn: key, kind: "unknown", field: a.exprString(arg)}
			if s, ok := arg.(*ast.SelectorExpr); ok {
				if sl, ok := a.p.Info.Selections[s]; ok && sl.Kind() == types.FieldVal {
					if nt, ok := derefNamed(sl.Recv()); ok {
						switch {
						case nt.Obj().Name() == "Engine":
							src.kind, src.field = "engine", s.Sel.Name
						case a.isPooledType(nt):
							src.kind, src.field = "ctx", s.Sel.Name
						default:
							src.kind, src.field = "other:"+nt.Obj().Name(), s.Sel.Name
						}
					}
				}
			}
			out = append(out, src)
			return true
		})
	}
	return out
}

func derefNamed(t types.Type) (*types.Named, bool) {
	if p, ok := t.(*types.Pointer); ok {
		t = p.Elem()
	}
	n, ok := t.(*types.Named)
	return n, ok
}

// isPooledType: some package-level sync.Pool constructs this type in its New function.
func (a *shAnalyzer) isPooledType(nt *types.Named) bool {
	for _, n := range a.p.Types.Scope().Names() {
		v, ok := a.p.Types.Scope().Lookup(n).(*types.Var)
		if !ok || !shIsSyncType(v.Type(), "Pool") {
			continue
		}
		if s, _ := a.poolNewType(n); s != nil && s == nt.Underlying() {
			return true
		}
	}
	return false
}

// ---- emit -------------------------------------------------------------------------------------------

func emitShared(p *Pkg) (string, error) {
	a := &shAnalyzer{p: p, shared: map[*types.Struct]string{}, perCall: map[string]string{}, pkgVars: map[*types.Var]bool{},
		entry: map[string]shLocks{}, decls: p.FuncDecls()}
	parseFn := a.decls["Parser.Parse"]
	var problems []string
	if parseFn == nil {
		problems = append(problems, "Parser.Parse not found")
	}
	if err := a.collectShared(parseFn); err != nil {
		return "", err
	}
	var keys []string
	for k := range a.decls {
		keys = append(keys, k)
	}
	sort.Strings(keys)

	// inherited locksets: iterate to a fixed point (top = not yet known)
	inheritable := func(k string) bool {
		fd := a.decls[k]
		return fd.Recv == nil && !ast.IsExported(fd.Name.Name)
	}
	for round := 0; round < 6; round++ {
		a.rows, a.callLock, a.unknown = nil, map[string][]shLocks{}, nil
		for _, k := range keys {
			a.analyzeFunc(k, a.decls[k])
		}
		changed := false
		for _, k := range keys {
			if !inheritable(k) {
				continue
			}
			sites := a.callLock[k]
			var m shLocks
			if len(sites) > 0 {
				m = sites[0]
				for _, s := range sites[1:] {
					m = shMeet(m, s)
				}
			} else {
				m = shLocks{}
			}
			old := a.entry[k]
			if len(old) != len(m) || len(shMeet(old, m)) != len(m) {
				changed = true
			}
			a.entry[k] = m
		}
		if !changed {
			break
		}
	}

	conc := a.reach(sharedEntryPoints)
	for _, ep := range sharedEntryPoints {
		if !conc[ep] {
			problems = append(problems, "entry point "+ep+" not found")
		}
	}
	for i := range a.rows {
		a.rows[i].conc = conc[a.rows[i].fn]
	}
	problems = append(problems, a.unknown...)

	// ---- locations and classes
	type locInfo struct {
		owner, field, kind string
		id                 int
		class, mutex       string
		concR, concW       int
		otherW             int
	}
	locs := map[string]*locInfo{}
	var locNames []string
	for _, r := range a.rows {
		l := r.loc()
		if locs[l] == nil {
			locs[l] = &locInfo{owner: r.owner, field: r.field, kind: r.kind}
			locNames = append(locNames, l)
		}
	}
	sort.Strings(locNames)
	for i, l := range locNames {
		locs[l].id = i
	}
	lockIds := map[string]int{"": 0}
	var lockNames []string
	for _, r := range a.rows {
		if r.lock != "" {
			if _, ok := lockIds[r.lock]; !ok {
				lockIds[r.lock] = 0
				lockNames = append(lockNames, r.lock)
			}
		}
	}
	sort.Strings(lockNames)
	for i, l := range lockNames {
		lockIds[l] = i + 1
	}
	for _, l := range locNames {
		li := locs[l]
		allLocked, writesW := true, true
		mutex := ""
		for _, r := range a.rows {
			if r.loc() != l {
				continue
			}
			if !r.conc {
				if r.write {
					li.otherW++
				}
				continue
			}
			if r.write {
				li.concW++
			} else {
				li.concR++
			}
			own := r.lock != "" && strings.HasPrefix(r.lock, r.owner+".")
			if !own {
				allLocked = false
			} else {
				if mutex == "" {
					mutex = r.lock
				} else if mutex != r.lock {
					allLocked = false
				}
				if r.write && r.mode != "w" {
					writesW = false
				}
			}
		}
		switch {
		case li.concR+li.concW == 0:
			li.class = "notConcurrent"
		case a.perCall[li.owner] != "":
			li.class = "perCall"
		case allLocked && writesW:
			li.class, li.mutex = "lockProtected", mutex
		case li.concW == 0 && li.otherW == 0:
			li.class = "readOnly"
		case li.concW == 0:
			li.class = "configOnly"
		default:
			li.class = "unsynchronisedWrite"
		}
	}

	// ---- reachability per entry point (functions that have rows only)
	hasRows := map[string]bool{}
	for _, r := range a.rows {
		hasRows[r.fn] = true
	}
	fnIds := map[string]int{}
	var fnNames []string
	for f := range hasRows {
		fnNames = append(fnNames, f)
	}
	sort.Strings(fnNames)
	for i, f := range fnNames {
		fnIds[f] = i
	}

	gets, rels, parseStep, tokensFromPooled := a.parseFacts(parseFn)
	relSrc := a.relSources(conc)

	// ---- write the Lean file (plain data: the model declares the record types)
	var sb strings.Builder
	sb.WriteString(header("Shared", "shared locations, accesses and the mutex held (property C02). Rows are plain tuples; TwigModel.Conc gives them their meaning."))
	sb.WriteString("/-- names of the locations; a row refers to a location by its index in this list -/\n")
	sb.WriteString("def locNames : List String := [\n")
	for i, l := range locNames {
		fmt.Fprintf(&sb, "  %s%s\n", leanStr(l), sepIf(i < len(locNames)-1))
	}
	sb.WriteString("]\n\n")
	sb.WriteString("/-- (location id, field kind, class computed by the extractor, mutex id (0 = none), pool (\"\" unless perCall)) -/\n")
	sb.WriteString("def locations : List (Nat × String × String × Nat × String) := [\n")
	for i, l := range locNames {
		li := locs[l]
		fmt.Fprintf(&sb, "  (%d, %s, %s, %d, %s)%s  -- %s  concR=%d concW=%d otherW=%d\n", li.id, leanStr(li.kind), leanStr(li.class),
			lockIds[li.mutex], leanStr(a.perCall[li.owner]), sepIf(i < len(locNames)-1), l, li.concR, li.concW, li.otherW)
	}
	sb.WriteString("]\n\n")
	sb.WriteString("/-- names of the mutexes; id = index + 1 (0 = no lock held) -/\n")
	sb.WriteString("def lockNames : List String := [\n")
	for i, l := range lockNames {
		fmt.Fprintf(&sb, "  %s%s\n", leanStr(l), sepIf(i < len(lockNames)-1))
	}
	sb.WriteString("]\n\n")
	sb.WriteString("/-- (mutex id, owner prefix of the locations it guards) -/\n")
	sb.WriteString("def lockOwners : List (Nat × String) := [\n")
	for i, l := range lockNames {
		owner := l[:strings.LastIndex(l, ".")]
		fmt.Fprintf(&sb, "  (%d, %s)%s\n", i+1, leanStr(owner), sepIf(i < len(lockNames)-1))
	}
	sb.WriteString("]\n\n")
	sb.WriteString("/-- names of the functions that have at least one row; a row refers to its function by index -/\n")
	sb.WriteString("def fnNames : List String := [\n")
	for i, f := range fnNames {
		fmt.Fprintf(&sb, "  %s%s\n", leanStr(f), sepIf(i < len(fnNames)-1))
	}
	sb.WriteString("]\n\n")
	sb.WriteString("/-- one row per access: (function id, ordinal in the function, location id, isWrite, mutex id held (0 = none),\n    mode 0 = none / 1 = read lock / 2 = write lock, lock region ordinal in the function, function reachable from the five entry points) -/\n")
	sb.WriteString("def accesses : List (Nat × Nat × Nat × Bool × Nat × Nat × Nat × Bool) := [\n")
	for i, r := range a.rows {
		mode := map[string]int{"none": 0, "r": 1, "w": 2}[r.mode]
		fmt.Fprintf(&sb, "  (%d, %d, %d, %s, %d, %d, %d, %s)%s  -- %s %s %s %s\n", fnIds[r.fn], r.ord, locs[r.loc()].id, leanBool(r.write),
			lockIds[r.lock], mode, r.region, leanBool(r.conc), sepIf(i < len(a.rows)-1), r.fn, map[bool]string{false: "read", true: "write"}[r.write], r.loc(), lockDesc(r))
	}
	sb.WriteString("]\n\n")
	sb.WriteString("/-- for each concurrent entry point: ids of the functions with rows reachable from it -/\n")
	sb.WriteString("def entryReach : List (String × List Nat) := [\n")
	for i, ep := range sharedEntryPoints {
		r := a.reach([]string{ep})
		var ids []string
		for _, f := range fnNames {
			if r[f] {
				ids = append(ids, fmt.Sprint(fnIds[f]))
			}
		}
		fmt.Fprintf(&sb, "  (%s, [%s])%s\n", leanStr(ep), strings.Join(ids, ", "), sepIf(i < len(sharedEntryPoints)-1))
	}
	sb.WriteString("]\n\n")

	// parse function
	fmt.Fprintf(&sb, "/-- the parse function: function id (or none), the step that reads the tokens, pools it takes an object from -/\n")
	pid := -1
	if id, ok := fnIds["Parser.Parse"]; ok {
		pid = id
	}
	fmt.Fprintf(&sb, "def parseFnName : String := %s\n", leanStr("Parser.Parse"))
	fmt.Fprintf(&sb, "def parseFnId : Int := %d\n", pid)
	fmt.Fprintf(&sb, "def parseStep : String := %s\n", leanStr(parseStep))
	fmt.Fprintf(&sb, "def parseGets : List String := [%s]\n", joinLeanStr(gets))
	{
		var bs []string
		for _, ep := range sharedEntryPoints {
			bs = append(bs, leanBool(a.reach([]string{ep})["Parser.Parse"]))
		}
		fmt.Fprintf(&sb, "/-- for each entry point (same order as entryReach): can it reach the parse function -/\ndef parseReachableFrom : List Bool := [%s]\n", strings.Join(bs, ", "))
	}
	fmt.Fprintf(&sb, "/-- the token list read by the parse step is the result of a method of the pooled object (it aliases its buffer) -/\n")
	fmt.Fprintf(&sb, "def parseTokensFromPooled : Bool := %s\n", leanBool(tokensFromPooled))
	sb.WriteString("/-- pool releases in the parse function: (pool, releasing function, deferred, placed before the parse step) -/\n")
	sb.WriteString("def parseReleases : List (String × String × Bool × Bool) := [\n")
	for i, r := range rels {
		fmt.Fprintf(&sb, "  (%s, %s, %s, %s)%s\n", leanStr(r.pool), leanStr(r.fn), leanBool(r.deferred), leanBool(r.beforeParse), sepIf(i < len(rels)-1))
	}
	sb.WriteString("]\n\n")

	// engine fields written by Render / RenderTo themselves
	var rw []string
	for _, r := range a.rows {
		if (r.fn == "Engine.Render" || r.fn == "Engine.RenderTo") && r.write && r.owner == "Engine" {
			rw = append(rw, r.fn+":"+r.field)
		}
	}
	fmt.Fprintf(&sb, "/-- engine fields assigned in the bodies of Engine.Render / Engine.RenderTo -/\ndef renderEngineWrites : List String := [%s]\n\n", joinLeanStr(rw))

	sb.WriteString("/-- where the base name for `./x` and `../x` comes from: (function, \"ctx\" = field of a pooled per-call context | \"engine\" = field of Engine | other, field) -/\n")
	sb.WriteString("def relativeNameSources : List (String × String × String) := [\n")
	for i, r := range relSrc {
		fmt.Fprintf(&sb, "  (%s, %s, %s)%s\n", leanStr(r.fn), leanStr(r.kind), leanStr(r.field), sepIf(i < len(relSrc)-1))
	}
	sb.WriteString("]\n\n")

	// Engine.Load check-then-act
	var loadRows []string
	tplLoc := "Engine.templates"
	readRegion, writeRegion, recheck := -1, -1, false
	for _, r := range a.rows {
		if r.fn == "Engine.Load" && r.loc() == tplLoc {
			loadRows = append(loadRows, fmt.Sprintf("(%s, %d, %d)", leanBool(r.write), map[string]int{"none": 0, "r": 1, "w": 2}[r.mode], r.region))
			if r.write {
				writeRegion = r.region
			} else if readRegion < 0 {
				readRegion = r.region
			}
		}
	}
	for _, r := range a.rows {
		if r.fn == "Engine.Load" && r.loc() == tplLoc && !r.write && r.region == writeRegion && writeRegion >= 0 {
			recheck = true
		}
	}
	fmt.Fprintf(&sb, "/-- accesses of the template cache in Engine.Load: (isWrite, mode, lock region) in source order -/\ndef loadCacheAccesses : List (Bool × Nat × Nat) := [%s]\n", strings.Join(loadRows, ", "))
	fmt.Fprintf(&sb, "/-- the cache fill of Engine.Load re-reads the cache inside the critical section of the write -/\ndef loadRechecksUnderWriteLock : Bool := %s\n\n", leanBool(recheck))

	sort.Strings(problems)
	fmt.Fprintf(&sb, "/-- constructs the extractor did not recognise (must be empty) -/\ndef unrecognised : List String := [%s]\n", joinLeanStr(problems))
	sb.WriteString(footer("Shared"))
	return sb.String(), nil
}

func sepIf(b bool) string {
	if b {
		return ","
	}
	return ""
}

func joinLeanStr(xs []string) string {
	q := make([]string, len(xs))
	for i, x := range xs {
		q[i] = leanStr(x)
	}
	return strings.Join(q, ", ")
}

func lockDesc(r shRow) string {
	if r.lock == "" {
		return "[no lock]"
	}
	return "[" + r.lock + " " + strings.ToUpper(r.mode) + "]"
}
