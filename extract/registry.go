package main

// Emitter `Registry` (properties C07 and the builtin tables of the render model).
//
//	filters / functions / tests / operators
//	      the registration tables of CoreExtension: every method of CoreExtension (any name) whose result
//	      type is map[string]FilterFunc / FunctionFunc / TestFunc / OperatorFunc and whose body is a single
//	      `return map[string]T{ "<name>": <recv>.<method>, … }`: one row (function, ordinal, name, method)
//	escapeHTML
//	      the function called by the method registered under "escape": is its body exactly
//	      `return html.EscapeString(<its parameter>)`, and is the registered method
//	      `s := toString(<value>); return <escapeHTML>(s), nil`
//	stdlibEscTable
//	      html/escape.go of the toolchain the package is type-checked with: EscapeString is
//	      `return htmlEscaper.Replace(s)` and `htmlEscaper = strings.NewReplacer(old, new, …)`: (byte, new)
//	fallbackCases / fallbackTable
//	      (*RenderContext).ApplyFilter: the `switch <name parameter>` of built-in fall-backs: its case
//	      strings; in the clause that lists "escape": `for _, c := range <string> { switch c { case '<r>':
//	      <builder>.WriteString("<lit>") … default: <builder>.WriteRune(c) } }`: (rune, literal)
//
// Strings that Lean has to compare with byte lists are emitted as lists of byte values.

import (
	"fmt"
	"go/ast"
	"go/constant"
	"go/parser"
	"go/token"
	"go/types"
	"strconv"
	"strings"
)

func init() { registerEmitter("Registry", emitRegistry) }

type rgyRow struct {
	fn     string
	ord    int
	name   string
	method string
}

func rgyBytes(s string) string {
	parts := make([]string, len(s))
	for i := 0; i < len(s); i++ {
		parts[i] = strconv.Itoa(int(s[i]))
	}
	return "[" + strings.Join(parts, ", ") + "]"
}

func emitRegistry(p *Pkg) (string, error) {
	var unknown []string
	unk := func(format string, a ...interface{}) { unknown = append(unknown, fmt.Sprintf(format, a...)) }
	units := fuUnits(p)
	tables := map[string][]rgyRow{}
	regMethod := map[string]map[string]*types.Func{} // table ↦ name ↦ method object
	kinds := map[string]string{"FilterFunc": "filters", "FunctionFunc": "functions", "TestFunc": "tests", "OperatorFunc": "operators"}
	for _, u := range units {
		if u.fd == nil || u.fd.Recv == nil {
			continue
		}
		fn, _ := p.Info.Defs[u.fd.Name].(*types.Func)
		if fn == nil {
			continue
		}
		sig := fn.Type().(*types.Signature)
		if fuNamed(p, sig.Recv().Type()) != "CoreExtension" || sig.Results().Len() != 1 || sig.Params().Len() != 0 {
			continue
		}
		m, ok := sig.Results().At(0).Type().(*types.Map)
		if !ok {
			continue
		}
		tbl, ok := kinds[fuNamed(p, m.Elem())]
		if !ok {
			continue
		}
		if b, ok := m.Key().(*types.Basic); !ok || b.Kind() != types.String {
			continue
		}
		if tables[tbl] != nil {
			unk("two methods of CoreExtension return %s tables", tbl)
		}
		var lit *ast.CompositeLit
		if len(u.fd.Body.List) == 1 {
			if rs, ok := u.fd.Body.List[0].(*ast.ReturnStmt); ok && len(rs.Results) == 1 {
				lit, _ = fuUnparen(rs.Results[0]).(*ast.CompositeLit)
			}
		}
		if lit == nil {
			unk("%s: body is not a single `return map[string]T{...}`", u.name)
			tables[tbl] = []rgyRow{{u.name, 0, "?", "unknown"}}
			continue
		}
		recv := p.Info.Defs[u.fd.Recv.List[0].Names[0]]
		regMethod[tbl] = map[string]*types.Func{}
		rows := []rgyRow{}
		for i, el := range lit.Elts {
			kv, ok := el.(*ast.KeyValueExpr)
			if !ok {
				unk("%s: element %d is not key: value", u.name, i)
				continue
			}
			name, ok := fuConstStr(p, kv.Key)
			if !ok {
				unk("%s: key %d is not a constant string", u.name, i)
				name = "?"
			}
			method := "unknown:" + types.ExprString(kv.Value)
			if sel, ok := fuUnparen(kv.Value).(*ast.SelectorExpr); ok {
				if s := p.Info.Selections[sel]; s != nil && s.Kind() == types.MethodVal && fuObj(p, sel.X) == recv {
					method = s.Obj().Name()
					regMethod[tbl][name] = s.Obj().(*types.Func)
				}
			}
			if strings.HasPrefix(method, "unknown:") {
				unk("%s: value of %q is not a method value of the receiver", u.name, name)
			}
			rows = append(rows, rgyRow{u.name, i, name, method})
		}
		tables[tbl] = rows
	}
	var sb strings.Builder
	sb.WriteString(header("Registry", "registration tables of CoreExtension (name ↦ method), the registered escaper, the built-in fallback escaper of ApplyFilter"))
	for _, tbl := range []string{"filters", "functions", "tests", "operators"} {
		if tables[tbl] == nil {
			unk("no method of CoreExtension returns the %s table", tbl)
		}
		var rows []string
		for _, r := range tables[tbl] {
			rows = append(rows, fmt.Sprintf("(%s, %d, %s, %s)", leanStr(r.fn), r.ord, leanStr(r.name), leanStr(r.method)))
		}
		fuTable(&sb, "(registering function, ordinal, name, method of CoreExtension)", tbl+"Rows", "List (String × Nat × String × String)", rows)
		fmt.Fprintf(&sb, "def %s : List (String × String) := %sRows.map fun r => (r.2.2.1, r.2.2.2)\n\n", tbl, tbl)
	}

	// ---- the registered escaper --------------------------------------------------------------------
	decls := map[*types.Func]*ast.FuncDecl{}
	for _, u := range units {
		if u.fd != nil {
			if fn, ok := p.Info.Defs[u.fd.Name].(*types.Func); ok {
				decls[fn] = u.fd
			}
		}
	}
	escMethod := ""
	methodShape, helperIsStdlib := false, false
	helperName := ""
	var stdEscape *types.Func
	if m := regMethod["filters"]["escape"]; m != nil {
		escMethod = m.Name()
		if fd := decls[m]; fd != nil && len(fd.Body.List) == 2 && fd.Type.Params != nil && len(fd.Type.Params.List) >= 1 && len(fd.Type.Params.List[0].Names) == 1 {
			val := p.Info.Defs[fd.Type.Params.List[0].Names[0]]
			as, ok1 := fd.Body.List[0].(*ast.AssignStmt)
			rs, ok2 := fd.Body.List[1].(*ast.ReturnStmt)
			if ok1 && ok2 && as.Tok == token.DEFINE && len(as.Lhs) == 1 && len(as.Rhs) == 1 && len(rs.Results) == 2 {
				sVar := fuObj(p, as.Lhs[0])
				c1, isC1 := fuUnparen(as.Rhs[0]).(*ast.CallExpr)
				c2, isC2 := fuUnparen(rs.Results[0]).(*ast.CallExpr)
				if isC1 && isC2 && len(c1.Args) == 1 && len(c2.Args) == 1 && fuObj(p, c1.Args[0]) == val && fuObj(p, c2.Args[0]) == sVar && sVar != nil {
					toStr := fuCallee(p, c1)
					helper := fuCallee(p, c2)
					if tv, ok := p.Info.Types[rs.Results[1]]; ok && tv.IsNil() && toStr != nil && toStr.Pkg() == p.Types && toStr.Name() == "toString" && helper != nil && helper.Pkg() == p.Types {
						methodShape = true
						helperName = helper.Name()
						// helper: `return html.EscapeString(param)`
						if hd := decls[helper]; hd != nil && len(hd.Body.List) == 1 && hd.Type.Params != nil && len(hd.Type.Params.List) == 1 && len(hd.Type.Params.List[0].Names) == 1 {
							hp := p.Info.Defs[hd.Type.Params.List[0].Names[0]]
							if hrs, ok := hd.Body.List[0].(*ast.ReturnStmt); ok && len(hrs.Results) == 1 {
								if hc, ok := fuUnparen(hrs.Results[0]).(*ast.CallExpr); ok && len(hc.Args) == 1 && fuObj(p, hc.Args[0]) == hp {
									if fuCalleeQual(p, hc) == "html.EscapeString" && fuCallee(p, hc).Pkg().Path() == "html" {
										helperIsStdlib = true
										stdEscape = fuCallee(p, hc)
									}
								}
							}
						}
					}
				}
			}
		}
	}
	if !methodShape {
		unk("the method registered under \"escape\" is not `s := toString(value); return <helper>(s), nil`")
	}
	if !helperIsStdlib {
		unk("the escape helper is not `return html.EscapeString(s)`")
	}
	fmt.Fprintf(&sb, "/-- the method registered under \"escape\" -/\ndef escapeMethod : String := %s\n/-- … is `s := toString(value); return <escapeHelper>(s), nil` -/\ndef escapeMethodShape : Bool := %s\ndef escapeHelper : String := %s\n/-- the helper's body is exactly `return html.EscapeString(<its parameter>)` -/\ndef escapeHelperIsStdlib : Bool := %s\n\n",
		leanStr(escMethod), leanBool(methodShape), leanStr(helperName), leanBool(helperIsStdlib))

	// ---- html.EscapeString of the toolchain ------------------------------------------------------------
	var stdRows []string
	stdOK := false
	if stdEscape != nil {
		file := p.Fset.Position(stdEscape.Pos()).Filename
		if file != "" {
			fs := token.NewFileSet()
			if f, err := parser.ParseFile(fs, file, nil, 0); err == nil {
				replacerVar := ""
				for _, d := range f.Decls {
					fd, ok := d.(*ast.FuncDecl)
					if !ok || fd.Name.Name != "EscapeString" || fd.Recv != nil || fd.Body == nil || len(fd.Body.List) != 1 {
						continue
					}
					if rs, ok := fd.Body.List[0].(*ast.ReturnStmt); ok && len(rs.Results) == 1 {
						if call, ok := rs.Results[0].(*ast.CallExpr); ok && len(call.Args) == 1 {
							if sel, ok := call.Fun.(*ast.SelectorExpr); ok && sel.Sel.Name == "Replace" {
								if id, ok := sel.X.(*ast.Ident); ok {
									replacerVar = id.Name
								}
							}
						}
					}
				}
				for _, d := range f.Decls {
					gd, ok := d.(*ast.GenDecl)
					if !ok || gd.Tok != token.VAR || replacerVar == "" {
						continue
					}
					for _, s := range gd.Specs {
						vs := s.(*ast.ValueSpec)
						if len(vs.Names) != 1 || vs.Names[0].Name != replacerVar || len(vs.Values) != 1 {
							continue
						}
						call, ok := vs.Values[0].(*ast.CallExpr)
						if !ok {
							continue
						}
						sel, ok := call.Fun.(*ast.SelectorExpr)
						if !ok || sel.Sel.Name != "NewReplacer" || len(call.Args)%2 != 0 {
							continue
						}
						if id, ok := sel.X.(*ast.Ident); !ok || id.Name != "strings" {
							continue
						}
						good := true
						var rows []string
						for i := 0; i < len(call.Args); i += 2 {
							o, ok1 := call.Args[i].(*ast.BasicLit)
							n, ok2 := call.Args[i+1].(*ast.BasicLit)
							if !ok1 || !ok2 || o.Kind != token.STRING || n.Kind != token.STRING {
								good = false
								break
							}
							os, err1 := strconv.Unquote(o.Value)
							ns, err2 := strconv.Unquote(n.Value)
							if err1 != nil || err2 != nil || len(os) != 1 {
								good = false
								break
							}
							rows = append(rows, fmt.Sprintf("(%d, %s)", os[0], rgyBytes(ns)))
						}
						if good {
							stdRows, stdOK = rows, true
						}
					}
				}
			}
		}
	}
	if !stdOK {
		unk("html.EscapeString of the toolchain is not `return <v>.Replace(s)` with `<v> = strings.NewReplacer(<1-byte literal>, <literal>, ...)`")
	}
	fuTable(&sb, "html.EscapeString: `strings.NewReplacer` arguments of the toolchain's html/escape.go: (byte, bytes of the replacement)", "stdlibEscTable", "List (Nat × List Nat)", stdRows)

	// ---- the fallback in ApplyFilter ---------------------------------------------------------------------
	var caseRows, fbRows []string
	fbDefaultWritesRune, fbRangesToString, fbReturnsBuilder := false, false, false
	var fbClauseNames []string
	for _, u := range units {
		if u.fd == nil || u.name != "RenderContext.ApplyFilter" {
			continue
		}
		var nameParam types.Object
		if u.fd.Type.Params != nil && len(u.fd.Type.Params.List) > 0 && len(u.fd.Type.Params.List[0].Names) > 0 {
			nameParam = p.Info.Defs[u.fd.Type.Params.List[0].Names[0]]
		}
		for _, st := range u.fd.Body.List {
			sw, ok := st.(*ast.SwitchStmt)
			if !ok || sw.Tag == nil || nameParam == nil || fuObj(p, sw.Tag) != nameParam || !isStringObj(nameParam) {
				continue
			}
			for ci, cs := range sw.Body.List {
				cc := cs.(*ast.CaseClause)
				var names []string
				for _, e := range cc.List {
					s, ok := fuConstStr(p, e)
					if !ok {
						unk("RenderContext.ApplyFilter: clause %d: case expression is not a constant string", ci)
						s = "?"
					}
					names = append(names, s)
					caseRows = append(caseRows, fmt.Sprintf("(%s, %d)", leanStr(s), ci))
				}
				isEsc := false
				for _, n := range names {
					if n == "escape" {
						isEsc = true
					}
				}
				if !isEsc {
					continue
				}
				fbClauseNames = names
				// the range loop and its switch
				var strVar, builder types.Object
				for _, bst := range cc.Body {
					switch x := bst.(type) {
					case *ast.AssignStmt:
						// str := ctx.ToString(value)
						if x.Tok == token.DEFINE && len(x.Lhs) == 1 && len(x.Rhs) == 1 {
							if call, ok := fuUnparen(x.Rhs[0]).(*ast.CallExpr); ok {
								if fn := fuCallee(p, call); fn != nil && fn.Name() == "ToString" && fn.Pkg() == p.Types {
									strVar = fuObj(p, x.Lhs[0])
								}
							}
						}
					case *ast.RangeStmt:
						if x.Value == nil || x.Key == nil || len(x.Body.List) != 1 {
							unk("RenderContext.ApplyFilter: the escape clause's range loop fits no schema")
							continue
						}
						if kid, ok := x.Key.(*ast.Ident); !ok || kid.Name != "_" {
							unk("RenderContext.ApplyFilter: the escape loop uses its index")
						}
						fbRangesToString = strVar != nil && fuObj(p, x.X) == strVar
						cVar := fuObj(p, x.Value)
						inner, ok := x.Body.List[0].(*ast.SwitchStmt)
						if !ok || inner.Tag == nil || fuObj(p, inner.Tag) != cVar {
							unk("RenderContext.ApplyFilter: the escape loop's body is not `switch c`")
							continue
						}
						for ii, ics := range inner.Body.List {
							icc := ics.(*ast.CaseClause)
							if len(icc.Body) != 1 {
								unk("RenderContext.ApplyFilter: escape switch clause %d has %d statements", ii, len(icc.Body))
								continue
							}
							es, ok := icc.Body[0].(*ast.ExprStmt)
							if !ok {
								unk("RenderContext.ApplyFilter: escape switch clause %d is not a call", ii)
								continue
							}
							call, ok := es.X.(*ast.CallExpr)
							if !ok || len(call.Args) != 1 {
								unk("RenderContext.ApplyFilter: escape switch clause %d is not a call", ii)
								continue
							}
							q := fuCalleeQual(p, call)
							recvObj := types.Object(nil)
							if sel, ok := call.Fun.(*ast.SelectorExpr); ok {
								recvObj = fuObj(p, sel.X)
							}
							if builder == nil {
								builder = recvObj
							}
							if recvObj == nil || recvObj != builder {
								unk("RenderContext.ApplyFilter: escape switch clause %d writes somewhere else", ii)
								continue
							}
							if icc.List == nil {
								fbDefaultWritesRune = q == "(strings.Builder).WriteRune" && fuObj(p, call.Args[0]) == cVar
								if !fbDefaultWritesRune {
									unk("RenderContext.ApplyFilter: the escape switch's default is not `b.WriteRune(c)`")
								}
								continue
							}
							lit, isLit := fuConstStr(p, call.Args[0])
							if q != "(strings.Builder).WriteString" || !isLit {
								unk("RenderContext.ApplyFilter: escape switch clause %d is not `b.WriteString(\"...\")`", ii)
								continue
							}
							for _, e := range icc.List {
								tv := p.Info.Types[e]
								if tv.Value == nil || tv.Value.Kind() != constant.Int {
									unk("RenderContext.ApplyFilter: escape switch clause %d: case is not a rune constant", ii)
									continue
								}
								r, _ := constant.Int64Val(tv.Value)
								fbRows = append(fbRows, fmt.Sprintf("(%d, %s)", r, rgyBytes(lit)))
							}
						}
					case *ast.ReturnStmt:
						if len(x.Results) == 2 && builder != nil {
							if call, ok := fuUnparen(x.Results[0]).(*ast.CallExpr); ok && fuCalleeQual(p, call) == "(strings.Builder).String" {
								if sel, ok := call.Fun.(*ast.SelectorExpr); ok && fuObj(p, sel.X) == builder {
									if tv, ok := p.Info.Types[x.Results[1]]; ok && tv.IsNil() {
										fbReturnsBuilder = true
									}
								}
							}
						}
					}
				}
			}
		}
	}
	if len(fbRows) == 0 {
		unk("RenderContext.ApplyFilter: fallback escaper not found")
	}
	fuTable(&sb, "ApplyFilter's switch over built-in fall-backs: (case string, clause ordinal)", "fallbackCases", "List (String × Nat)", caseRows)
	fmt.Fprintf(&sb, "/-- the case strings of the clause that lists \"escape\" -/\ndef fallbackEscapeNames : List String := %s\n\n", fuStrList(fbClauseNames))
	fuTable(&sb, "the fallback escaper's `switch c`: (rune, bytes of the literal written)", "fallbackTable", "List (Nat × List Nat)", fbRows)
	fmt.Fprintf(&sb, "/-- `default: b.WriteRune(c)` -/\ndef fallbackDefaultWritesRune : Bool := %s\n/-- the loop is `for _, c := range str` with `str := ctx.ToString(value)` -/\ndef fallbackRangesToString : Bool := %s\n/-- the clause ends in `return b.String(), nil` -/\ndef fallbackReturnsBuilder : Bool := %s\n\n",
		leanBool(fbDefaultWritesRune), leanBool(fbRangesToString), leanBool(fbReturnsBuilder))

	var rows []string
	for _, u := range unknown {
		rows = append(rows, leanStr(u))
	}
	fuTable(&sb, "constructs that fitted no schema (must be empty)", "unknown", "List String", rows)
	sb.WriteString(footer("Registry"))
	var err error
	if len(unknown) > 0 {
		err = fmt.Errorf("%d construct(s) not recognised: %s", len(unknown), strings.Join(unknown, "; "))
	}
	return sb.String(), err
}
