package main

import (
	"fmt"
	"go/ast"
	"go/token"
	"go/types"
	"strings"
)

// Writes: every store that could reach memory the caller handed in, in the render-path files
// (render.go, extension.go, node.go, render_filter.go, whitespace.go, expr.go):
//
//	indexStore  x[i] = v / x[i] op= v / x[i]++        (slice or array element)
//	mapStore    m[k] = v                               (map element)
//	append      append(x, …)                           (may write into x's spare capacity)
//	copy        copy(dst, src)
//	delete      delete(m, k)
//	sort        sort.X(s, …)                           (sorts in place)
//	reflectSet  v.Set*(…), v.SetMapIndex(…), reflect.Copy(dst, …)
//
// each with the *provenance* of the memory written, found by an intra-procedural def-use walk over
// go/types objects (plus one-level summaries "this function returns freshly allocated memory"):
//
//	fresh       allocated in this function (make, composite literal, new, reflect.MakeSlice/MakeMap/New,
//	            result of a standard-library function, result of a package function that returns fresh memory)
//	ctxPrivate  a field of *RenderContext or a container owned by it (ctx.context, ctx.macros, ctx.blocks …);
//	            elements of such containers whose static type is a library type
//	engine      template AST nodes, *Template, *Engine, *Environment and containers of library types
//	            (not caller data; shared-state questions belong to C01/C02)
//	cache       package-level variable guarded by a lock (struct with a sync.Mutex/RWMutex, sync.Map, sync.Pool)
//	param       a parameter, or something reachable from a parameter or from a value stored in the context,
//	            whose static type can hold caller data (interface{}, reflect.Value, []interface{}, map[string]interface{} …)
//	unknown     anything the walk cannot resolve
//
// The walk is conservative: provenance joins go towards `param`.
func init() { registerEmitter("Writes", emitWrites) }

var writesFiles = map[string]bool{"render.go": true, "extension.go": true, "node.go": true, "render_filter.go": true, "whitespace.go": true, "expr.go": true}

type prov int

const (
	pFresh prov = iota
	pCtx
	pEngine
	pCache
	pUnknown
	pParam
)

func (p prov) String() string {
	return [...]string{"fresh", "ctxPrivate", "engine", "cache", "unknown", "param"}[p]
}

func joinProv(a, b prov) prov {
	if a > b {
		return a
	}
	return b
}

type wDef struct {
	expr   ast.Expr
	elemOf bool // the object is an element of expr (range value, index read)
}

type wFunc struct {
	c       *wCtx
	decl    *ast.FuncDecl
	defs    map[types.Object][]wDef
	stores  map[types.Object][]ast.Expr // values stored into a local container: c[k] = v, append(c, v…), literal elements
	params  map[types.Object]bool
	memo    map[types.Object]prov
	busy    map[types.Object]bool
	ememo   map[types.Object]prov
	ebusy   map[types.Object]bool
	reasons map[types.Object]string
	tsDefs  map[token.Pos]ast.Expr // `switch v := x.(type)`: position of v ↦ x (the per-clause objects of v are declared there)
}

type wCtx struct {
	p        *Pkg
	decls    map[*types.Func]*ast.FuncDecl
	funcs    map[*ast.FuncDecl]*wFunc
	retMemo  map[*types.Func]prov
	retBusy  map[*types.Func]bool
	rcType   types.Type // *RenderContext
	nodeIntf *types.Interface
}

func (c *wCtx) obj(id *ast.Ident) types.Object {
	if o := c.p.Info.Uses[id]; o != nil {
		return o
	}
	return c.p.Info.Defs[id]
}

func (c *wCtx) typeOf(e ast.Expr) types.Type {
	if tv, ok := c.p.Info.Types[e]; ok {
		return tv.Type
	}
	if id, ok := e.(*ast.Ident); ok {
		if o := c.obj(id); o != nil {
			return o.Type()
		}
	}
	return nil
}

// libraryType: a type that cannot hold caller data: basic types, named types of package twig (nodes,
// contexts, engine …) and pointers / slices / maps / funcs built from them. interface{} (and any other
// interface that is not a twig type), reflect.Value and containers of those can.
func (c *wCtx) libraryType(t types.Type, depth int) bool {
	if t == nil || depth > 6 {
		return false
	}
	switch x := t.(type) {
	case *types.Basic:
		return true
	case *types.Named:
		if x.Obj().Pkg() == c.p.Types {
			return true
		}
		if x.Obj().Pkg() != nil && (x.Obj().Pkg().Path() == "reflect" || x.Obj().Pkg().Path() == "time") {
			return x.Obj().Pkg().Path() == "time"
		}
		return c.libraryType(x.Underlying(), depth+1)
	case *types.Pointer:
		return c.libraryType(x.Elem(), depth+1)
	case *types.Slice:
		return c.libraryType(x.Elem(), depth+1)
	case *types.Array:
		return c.libraryType(x.Elem(), depth+1)
	case *types.Map:
		return c.libraryType(x.Key(), depth+1) && c.libraryType(x.Elem(), depth+1)
	case *types.Signature:
		return true
	case *types.Struct:
		for i := 0; i < x.NumFields(); i++ {
			if !c.libraryType(x.Field(i).Type(), depth+1) {
				return false
			}
		}
		return true
	case *types.Interface:
		return false
	case *types.Chan:
		return c.libraryType(x.Elem(), depth+1)
	}
	return false
}

func (c *wCtx) isRenderContext(t types.Type) bool {
	if t == nil {
		return false
	}
	if p, ok := t.(*types.Pointer); ok {
		t = p.Elem()
	}
	n, ok := t.(*types.Named)
	return ok && n.Obj().Pkg() == c.p.Types && n.Obj().Name() == "RenderContext"
}

func (c *wCtx) lockGuarded(t types.Type) bool {
	if p, ok := t.(*types.Pointer); ok {
		t = p.Elem()
	}
	if n, ok := t.(*types.Named); ok && n.Obj().Pkg() != nil && n.Obj().Pkg().Path() == "sync" {
		return true
	}
	st, ok := t.Underlying().(*types.Struct)
	if !ok {
		return false
	}
	for i := 0; i < st.NumFields(); i++ {
		ft := st.Field(i).Type()
		if n, ok := ft.(*types.Named); ok && n.Obj().Pkg() != nil && n.Obj().Pkg().Path() == "sync" {
			return true
		}
	}
	return false
}

func (c *wCtx) callee(call *ast.CallExpr) *types.Func {
	switch f := unparen(call.Fun).(type) {
	case *ast.Ident:
		fn, _ := c.obj(f).(*types.Func)
		return fn
	case *ast.SelectorExpr:
		fn, _ := c.obj(f.Sel).(*types.Func)
		return fn
	}
	return nil
}

func (c *wCtx) builtin(call *ast.CallExpr) string {
	if id, ok := unparen(call.Fun).(*ast.Ident); ok {
		if b, ok := c.obj(id).(*types.Builtin); ok {
			return b.Name()
		}
	}
	return ""
}

// ---- per-function def-use ---------------------------------------------------------------------------

func (c *wCtx) analyse(fd *ast.FuncDecl) *wFunc {
	if f, ok := c.funcs[fd]; ok {
		return f
	}
	f := &wFunc{c: c, decl: fd, defs: map[types.Object][]wDef{}, stores: map[types.Object][]ast.Expr{}, params: map[types.Object]bool{},
		memo: map[types.Object]prov{}, busy: map[types.Object]bool{}, ememo: map[types.Object]prov{}, ebusy: map[types.Object]bool{}, reasons: map[types.Object]string{}, tsDefs: map[token.Pos]ast.Expr{}}
	c.funcs[fd] = f
	addParams := func(fl *ast.FieldList) {
		if fl == nil {
			return
		}
		for _, fld := range fl.List {
			for _, n := range fld.Names {
				if o := c.obj(n); o != nil {
					f.params[o] = true
				}
			}
		}
	}
	addParams(fd.Recv)
	addParams(fd.Type.Params)
	if fd.Body == nil {
		return f
	}
	rootIdent := func(e ast.Expr) types.Object {
		if id, ok := unparen(e).(*ast.Ident); ok {
			return c.obj(id)
		}
		return nil
	}
	ast.Inspect(fd.Body, func(n ast.Node) bool {
		switch x := n.(type) {
		case *ast.FuncLit:
			addParams(x.Type.Params)
		case *ast.AssignStmt:
			if len(x.Lhs) == len(x.Rhs) {
				for i, lhs := range x.Lhs {
					switch l := unparen(lhs).(type) {
					case *ast.Ident:
						if o := c.obj(l); o != nil {
							f.defs[o] = append(f.defs[o], wDef{expr: x.Rhs[i]})
						}
					case *ast.IndexExpr:
						if o := rootIdent(l.X); o != nil {
							f.stores[o] = append(f.stores[o], x.Rhs[i])
						}
					}
				}
			} else if len(x.Rhs) == 1 {
				// a, b := f()   /   v, ok := m[k]   /   v, ok := x.(T)
				for i, lhs := range x.Lhs {
					if id, ok := unparen(lhs).(*ast.Ident); ok && id.Name != "_" {
						if o := c.obj(id); o != nil {
							if i == 0 {
								f.defs[o] = append(f.defs[o], wDef{expr: x.Rhs[0]})
							} else if !types.Identical(o.Type(), types.Typ[types.Bool]) && !isErrorType(o.Type()) {
								f.defs[o] = append(f.defs[o], wDef{expr: x.Rhs[0]})
							}
						}
					}
				}
			}
		case *ast.ValueSpec:
			for i, name := range x.Names {
				if o := c.obj(name); o != nil && i < len(x.Values) {
					f.defs[o] = append(f.defs[o], wDef{expr: x.Values[i]})
				} else if o != nil && len(x.Values) == 0 {
					f.defs[o] = append(f.defs[o], wDef{expr: nil}) // zero value
				}
			}
		case *ast.RangeStmt:
			if id, ok := x.Value.(*ast.Ident); ok && id.Name != "_" {
				if o := c.obj(id); o != nil {
					f.defs[o] = append(f.defs[o], wDef{expr: x.X, elemOf: true})
				}
			}
			if id, ok := x.Key.(*ast.Ident); ok && id.Name != "_" {
				if o := c.obj(id); o != nil {
					// map keys can be caller data too
					f.defs[o] = append(f.defs[o], wDef{expr: x.X, elemOf: true})
				}
			}
		case *ast.TypeSwitchStmt:
			if as, ok := x.Assign.(*ast.AssignStmt); ok && len(as.Rhs) == 1 {
				if ta, ok := as.Rhs[0].(*ast.TypeAssertExpr); ok {
					if id, ok := as.Lhs[0].(*ast.Ident); ok {
						f.tsDefs[id.Pos()] = ta.X
					}
					for _, cl := range x.Body.List {
						if o := c.p.Info.Implicits[cl]; o != nil {
							f.defs[o] = append(f.defs[o], wDef{expr: ta.X})
						}
					}
				}
			}
		case *ast.CallExpr:
			if c.builtin(x) == "append" && len(x.Args) > 0 {
				if o := rootIdent(x.Args[0]); o != nil {
					f.stores[o] = append(f.stores[o], x.Args[1:]...)
				}
			}
		}
		return true
	})
	return f
}

func isErrorType(t types.Type) bool {
	return types.Identical(t, types.Universe.Lookup("error").Type())
}

func (f *wFunc) objProv(o types.Object) (prov, string) {
	c := f.c
	if p, ok := f.memo[o]; ok {
		return p, f.reasons[o]
	}
	if f.busy[o] {
		return pFresh, ""
	}
	f.busy[o] = true
	defer func() { f.busy[o] = false }()
	set := func(p prov, why string) (prov, string) {
		f.memo[o] = p
		f.reasons[o] = why
		return p, why
	}
	v, isVar := o.(*types.Var)
	if !isVar {
		return set(pUnknown, "not a variable")
	}
	if f.params[o] {
		switch {
		case c.isRenderContext(o.Type()):
			return set(pCtx, "render context "+o.Name())
		case c.libraryType(o.Type(), 0):
			return set(pEngine, "library-typed parameter "+o.Name())
		default:
			return set(pParam, "parameter "+o.Name())
		}
	}
	if v.Parent() == c.p.Types.Scope() || (v.Pkg() == c.p.Types && v.Parent() != nil && v.Parent().Parent() == types.Universe) {
		if c.lockGuarded(o.Type()) {
			return set(pCache, "package-level "+o.Name()+" (lock-guarded)")
		}
		if c.libraryType(o.Type(), 0) {
			return set(pEngine, "package-level "+o.Name())
		}
		return set(pUnknown, "package-level "+o.Name())
	}
	defs := f.defs[o]
	if len(defs) == 0 {
		if x, ok := f.tsDefs[o.Pos()]; ok {
			defs = []wDef{{expr: x}}
		}
	}
	if len(defs) == 0 {
		// captured from an enclosing function literal scope or declared without our seeing it
		if c.isRenderContext(o.Type()) {
			return set(pCtx, "render context "+o.Name())
		}
		return set(pUnknown, "no definition of "+o.Name()+" found")
	}
	res, why := pFresh, "allocated here"
	for _, d := range defs {
		var p prov
		var w string
		switch {
		case d.expr == nil:
			p, w = pFresh, "zero value"
		case d.elemOf:
			p, w = f.elemProv(d.expr, o.Type())
		default:
			p, w = f.exprProv(d.expr)
		}
		if p > res {
			res, why = p, w
		}
	}
	return set(res, why)
}

// elemProv: provenance of an element (of static type et) read out of container e.
func (f *wFunc) elemProv(e ast.Expr, et types.Type) (prov, string) {
	c := f.c
	cp, cw := f.exprProv(e)
	if c.libraryType(et, 0) {
		if cp == pParam {
			// library-typed element of a parameter container: still not caller data
			return pEngine, "library-typed element of " + types.ExprString(e)
		}
		return cp, cw
	}
	if cp == pFresh {
		// elements of a container allocated here: whatever this function stored into it
		if id, ok := unparen(e).(*ast.Ident); ok {
			if o := c.obj(id); o != nil {
				if p, ok := f.ememo[o]; ok {
					return p, "element of local " + id.Name
				}
				if f.ebusy[o] {
					return pFresh, ""
				}
				f.ebusy[o] = true
				res, why := pFresh, "element of local "+id.Name+" (all stored values allocated here)"
				stored := append([]ast.Expr(nil), f.stores[o]...)
				for _, d := range f.defs[o] {
					if d.expr == nil || d.elemOf {
						continue
					}
					if cl, ok := unparen(d.expr).(*ast.CompositeLit); ok {
						for _, el := range cl.Elts {
							if kv, ok := el.(*ast.KeyValueExpr); ok {
								stored = append(stored, kv.Value)
							} else {
								stored = append(stored, el)
							}
						}
					} else if call, ok := unparen(d.expr).(*ast.CallExpr); ok && (c.builtin(call) == "make" || c.builtin(call) == "new") {
						// empty
					} else if call, ok := unparen(d.expr).(*ast.CallExpr); ok && c.builtin(call) == "append" {
						stored = append(stored, call.Args[1:]...)
						if p, w := f.elemProv(call.Args[0], et); p > res {
							res, why = p, w
						}
					} else {
						// fresh for another reason (e.g. result of a function): contents unknown
						if p := pUnknown; p > res {
							res, why = p, "element of "+id.Name+", whose contents come from "+types.ExprString(d.expr)
						}
					}
				}
				for _, s := range stored {
					if p, w := f.exprProv(s); p > res {
						res, why = p, "element of local "+id.Name+": "+w
					}
				}
				f.ebusy[o] = false
				f.ememo[o] = res
				return res, why
			}
		}
		return pUnknown, "element of a fresh container with unknown contents"
	}
	if cp == pCtx || cp == pEngine || cp == pCache {
		return pParam, "value held in " + types.ExprString(e) + " (" + cp.String() + "): may be caller data"
	}
	return cp, cw
}

var freshStdPkgs = map[string]bool{"strings": true, "strconv": true, "fmt": true, "regexp": true, "html": true, "url": true, "net/url": true, "unicode/utf8": true, "math": true, "time": true, "encoding/json": true, "path": true, "path/filepath": true, "bytes": true, "errors": true}

func (f *wFunc) exprProv(e ast.Expr) (prov, string) {
	c := f.c
	e = unparen(e)
	if tv, ok := c.p.Info.Types[e]; ok && (tv.Value != nil || tv.IsNil()) {
		return pFresh, "constant"
	}
	if c.isRenderContext(c.typeOf(e)) {
		return pCtx, "a render context (" + types.ExprString(e) + ")"
	}
	switch x := e.(type) {
	case *ast.BasicLit, *ast.FuncLit:
		return pFresh, "literal"
	case *ast.CompositeLit:
		return pFresh, "composite literal"
	case *ast.Ident:
		o := c.obj(x)
		if o == nil {
			return pUnknown, "unresolved " + x.Name
		}
		if _, ok := o.(*types.Nil); ok {
			return pFresh, "nil"
		}
		return f.objProv(o)
	case *ast.UnaryExpr:
		if x.Op == token.AND {
			if _, ok := unparen(x.X).(*ast.CompositeLit); ok {
				return pFresh, "&composite literal"
			}
			return f.exprProv(x.X)
		}
		return pFresh, "computed value"
	case *ast.BinaryExpr:
		return pFresh, "computed value"
	case *ast.StarExpr:
		return f.exprProv(x.X)
	case *ast.TypeAssertExpr:
		return f.exprProv(x.X)
	case *ast.SliceExpr:
		p, w := f.exprProv(x.X)
		return p, "window of " + types.ExprString(x.X) + ": " + w
	case *ast.SelectorExpr:
		// package-qualified identifier
		if id, ok := x.X.(*ast.Ident); ok {
			if _, ok := c.obj(id).(*types.PkgName); ok {
				if o := c.obj(x.Sel); o != nil {
					return f.objProv(o)
				}
			}
		}
		bp, bw := f.exprProv(x.X)
		t := c.typeOf(e)
		switch bp {
		case pCtx:
			if c.libraryType(t, 0) {
				return pCtx, "field of the render context"
			}
			// ctx.context: the private copy of the top-level map
			if m, ok := t.Underlying().(*types.Map); ok && c.libraryType(m.Key(), 0) {
				return pCtx, "map owned by the render context (" + types.ExprString(e) + ")"
			}
			return pParam, "value held by the render context"
		case pEngine:
			if c.libraryType(t, 0) {
				return pEngine, bw
			}
			if _, ok := t.Underlying().(*types.Map); ok {
				return pEngine, "container owned by " + types.ExprString(x.X)
			}
			return pParam, "value held by " + types.ExprString(x.X)
		}
		return bp, bw
	case *ast.IndexExpr:
		return f.elemProv(x.X, c.typeOf(e))
	case *ast.CallExpr:
		if tv, ok := c.p.Info.Types[x.Fun]; ok && tv.IsType() {
			if len(x.Args) == 1 {
				// conversion: []byte(s) and string(b) allocate; others alias
				if b, ok := tv.Type.Underlying().(*types.Basic); ok && b.Info()&types.IsString != 0 {
					return pFresh, "string conversion"
				}
				if at := c.typeOf(x.Args[0]); at != nil {
					if b, ok := at.Underlying().(*types.Basic); ok && b.Info()&types.IsString != 0 {
						return pFresh, "conversion from string"
					}
				}
				return f.exprProv(x.Args[0])
			}
		}
		switch c.builtin(x) {
		case "make", "new":
			return pFresh, c.builtin(x)
		case "append":
			p, w := f.exprProv(x.Args[0])
			return p, w
		case "len", "cap", "min", "max":
			return pFresh, "number"
		case "":
		default:
			return pUnknown, "builtin " + c.builtin(x)
		}
		fn := c.callee(x)
		if fn == nil {
			return pUnknown, "call of a function value " + types.ExprString(x.Fun)
		}
		full := fn.FullName()
		switch full {
		case "reflect.MakeSlice", "reflect.MakeMap", "reflect.MakeMapWithSize", "reflect.New", "reflect.Zero", "reflect.TypeOf":
			return pFresh, full
		case "reflect.ValueOf", "reflect.Indirect":
			return f.exprProv(x.Args[0])
		case "reflect.Append", "reflect.AppendSlice":
			return f.exprProv(x.Args[0])
		}
		if sel, ok := unparen(x.Fun).(*ast.SelectorExpr); ok {
			if recvT := c.typeOf(sel.X); recvT != nil && recvT.String() == "reflect.Value" {
				switch fn.Name() {
				case "Elem", "Index", "Field", "FieldByName", "MapIndex", "Slice", "Slice3", "Interface", "Convert", "Addr":
					p, w := f.exprProv(sel.X)
					return p, "reached through reflection from " + types.ExprString(sel.X) + ": " + w
				case "Len", "Cap", "Kind", "Type", "IsNil", "IsValid", "Int", "Uint", "Float", "String", "Bool", "CanSet", "CanInterface", "NumField":
					return pFresh, "scalar"
				case "MapKeys":
					return pFresh, "MapKeys allocates its result"
				}
			}
		}
		if fn.Pkg() != nil && fn.Pkg() != c.p.Types {
			if freshStdPkgs[fn.Pkg().Path()] || fn.Pkg().Path() == "sort" {
				return pFresh, "result of " + full
			}
			return pUnknown, "result of " + full
		}
		// a function of package twig: does it return fresh memory?
		rt := c.typeOf(e)
		if rt != nil {
			if _, isTuple := rt.(*types.Tuple); !isTuple && c.libraryType(rt, 0) {
				if b, ok := rt.Underlying().(*types.Basic); ok && b != nil {
					return pFresh, "scalar result"
				}
			}
		}
		p := c.returnsProv(fn)
		return p, "result of " + fn.Name() + " (" + p.String() + ")"
	}
	return pUnknown, fmt.Sprintf("unhandled expression %T", e)
}

// returnsProv: join of the provenance of result 0 over all return statements of fn (in fn's own frame;
// parameters there are `param`).
func (c *wCtx) returnsProv(fn *types.Func) prov {
	if p, ok := c.retMemo[fn]; ok {
		return p
	}
	if c.retBusy[fn] {
		return pFresh
	}
	fd := c.decls[fn]
	if fd == nil || fd.Body == nil {
		return pUnknown
	}
	c.retBusy[fn] = true
	f := c.analyse(fd)
	res := pFresh
	var walk func(n ast.Node)
	walk = func(n ast.Node) {
		ast.Inspect(n, func(x ast.Node) bool {
			switch r := x.(type) {
			case *ast.FuncLit:
				return false
			case *ast.ReturnStmt:
				if len(r.Results) == 0 {
					// named results: not handled
					if fd.Type.Results != nil && len(fd.Type.Results.List) > 0 && len(fd.Type.Results.List[0].Names) > 0 {
						res = joinProv(res, pUnknown)
					}
					return true
				}
				p, _ := f.exprProv(r.Results[0])
				res = joinProv(res, p)
			}
			return true
		})
	}
	walk(fd.Body)
	c.retBusy[fn] = false
	c.retMemo[fn] = res
	return res
}

// ---- sites -----------------------------------------------------------------------------------------

type wSite struct {
	file, fn string
	ordinal  int
	op       string
	target   string
	prov     prov
	why      string
}

// dominatingDef: for a use of local variable o at position pos (ancestors in stack), the assignment
// `o = rhs` that is a statement of an enclosing block, precedes the use, and is the only definition that
// can reach it: every other definition of o lies before it, or after the use and outside every loop that
// encloses the use but not the assignment.  Returns nil if there is no such assignment.
func (f *wFunc) dominatingDef(o types.Object, pos token.Pos, stack []ast.Node) ast.Expr {
	c := f.c
	var dom *ast.AssignStmt
	var domRhs ast.Expr
	for i := len(stack) - 1; i >= 0 && dom == nil; i-- {
		var list []ast.Stmt
		switch b := stack[i].(type) {
		case *ast.BlockStmt:
			list = b.List
		case *ast.CaseClause:
			list = b.Body
		default:
			continue
		}
		for j := len(list) - 1; j >= 0; j-- {
			st := list[j]
			if st.End() > pos {
				continue
			}
			as, ok := st.(*ast.AssignStmt)
			if !ok || len(as.Lhs) != len(as.Rhs) {
				continue
			}
			for k, lhs := range as.Lhs {
				if id, ok := lhs.(*ast.Ident); ok && c.obj(id) == o {
					dom, domRhs = as, as.Rhs[k]
				}
			}
			if dom != nil {
				break
			}
		}
	}
	if dom == nil {
		return nil
	}
	// positions of all definitions of o
	var defPos []token.Pos
	ast.Inspect(f.decl.Body, func(n ast.Node) bool {
		switch x := n.(type) {
		case *ast.AssignStmt:
			for _, lhs := range x.Lhs {
				if id, ok := lhs.(*ast.Ident); ok && c.obj(id) == o && x != dom {
					defPos = append(defPos, x.Pos())
				}
			}
		case *ast.RangeStmt:
			for _, e := range []ast.Expr{x.Key, x.Value} {
				if id, ok := e.(*ast.Ident); ok && c.obj(id) == o {
					defPos = append(defPos, x.Pos())
				}
			}
		case *ast.UnaryExpr:
			if x.Op == token.AND { // address taken: give up
				if id, ok := unparen(x.X).(*ast.Ident); ok && c.obj(id) == o {
					defPos = append(defPos, dom.End()+1)
				}
			}
		}
		return true
	})
	for _, dp := range defPos {
		if dp < dom.Pos() {
			continue // killed by dom
		}
		if dp < pos {
			return nil // another definition between dom and the use
		}
		// after the use: harmful only if a loop encloses both the use and that definition but not dom
		for _, n := range stack {
			switch l := n.(type) {
			case *ast.ForStmt, *ast.RangeStmt:
				if l.Pos() > dom.Pos() && l.Pos() <= dp && dp < l.End() {
					return nil
				}
			}
		}
	}
	return domRhs
}

func (c *wCtx) sitesIn(file string, fd *ast.FuncDecl) []wSite {
	f := c.analyse(fd)
	var sites []wSite
	var stack []ast.Node
	add := func(op string, target ast.Expr) {
		p, w := f.exprProv(target)
		if id, ok := unparen(target).(*ast.Ident); ok && p > pFresh {
			if o := c.obj(id); o != nil && !f.params[o] {
				if rhs := f.dominatingDef(o, target.Pos(), stack); rhs != nil {
					if p2, w2 := f.exprProv(rhs); p2 < p {
						p, w = p2, "reaching definition "+id.Name+" = "+truncateStr(types.ExprString(rhs), 40)+": "+w2
					}
				}
			}
		}
		sites = append(sites, wSite{file: file, fn: funcKey(fd), op: op, target: types.ExprString(target), prov: p, why: w})
	}
	storeTo := func(lhs ast.Expr) {
		ix, ok := unparen(lhs).(*ast.IndexExpr)
		if !ok {
			return
		}
		t := c.typeOf(ix.X)
		if t == nil {
			return
		}
		switch u := t.Underlying().(type) {
		case *types.Map:
			add("mapStore", ix.X)
		case *types.Slice, *types.Array:
			add("indexStore", ix.X)
		case *types.Pointer:
			if _, ok := u.Elem().Underlying().(*types.Array); ok {
				add("indexStore", ix.X)
			}
		}
	}
	ast.Inspect(fd.Body, func(n ast.Node) bool {
		if n == nil {
			stack = stack[:len(stack)-1]
			return true
		}
		stack = append(stack, n)
		switch x := n.(type) {
		case *ast.AssignStmt:
			for _, lhs := range x.Lhs {
				storeTo(lhs)
			}
		case *ast.IncDecStmt:
			storeTo(x.X)
		case *ast.CallExpr:
			switch c.builtin(x) {
			case "append":
				add("append", x.Args[0])
			case "copy":
				add("copy", x.Args[0])
			case "delete":
				add("delete", x.Args[0])
			case "clear":
				add("delete", x.Args[0])
			}
			fn := c.callee(x)
			if fn == nil || fn.Pkg() == nil {
				return true
			}
			switch fn.Pkg().Path() {
			case "sort", "slices":
				if len(x.Args) > 0 && (strings.HasPrefix(fn.Name(), "Sort") || fn.Name() == "Slice" || fn.Name() == "SliceStable" ||
					fn.Name() == "Strings" || fn.Name() == "Ints" || fn.Name() == "Float64s" || fn.Name() == "Stable" || fn.Name() == "Reverse") {
					arg := x.Args[0]
					// sort.Sort(sort.Reverse(sort.StringSlice(s))) and friends: look through conversions/wrappers
					for {
						inner, ok := unparen(arg).(*ast.CallExpr)
						if !ok || len(inner.Args) != 1 {
							break
						}
						if tv, ok := c.p.Info.Types[inner.Fun]; ok && tv.IsType() {
							arg = inner.Args[0]
							continue
						}
						if ifn := c.callee(inner); ifn != nil && ifn.Pkg() != nil && ifn.Pkg().Path() == "sort" {
							arg = inner.Args[0]
							continue
						}
						break
					}
					if fn.Name() != "Reverse" {
						add("sort", arg)
					}
				}
			case "reflect":
				if sel, ok := unparen(x.Fun).(*ast.SelectorExpr); ok {
					if rt := c.typeOf(sel.X); rt != nil && rt.String() == "reflect.Value" {
						if strings.HasPrefix(fn.Name(), "Set") {
							add("reflectSet", sel.X)
						}
					}
				}
				if fn.FullName() == "reflect.Copy" && len(x.Args) == 2 {
					add("reflectSet", x.Args[0])
				}
			}
		}
		return true
	})
	for i := range sites {
		sites[i].ordinal = i
	}
	return sites
}

func truncateStr(s string, n int) string {
	if len(s) > n {
		return s[:n] + "…"
	}
	return s
}

func emitWrites(p *Pkg) (string, error) {
	c := &wCtx{p: p, decls: map[*types.Func]*ast.FuncDecl{}, funcs: map[*ast.FuncDecl]*wFunc{}, retMemo: map[*types.Func]prov{}, retBusy: map[*types.Func]bool{}}
	for _, f := range p.Files {
		for _, d := range f.Decls {
			if fd, ok := d.(*ast.FuncDecl); ok {
				if fn, ok := p.Info.Defs[fd.Name].(*types.Func); ok {
					c.decls[fn] = fd
				}
			}
		}
	}
	var all []wSite
	for i, f := range p.Files {
		if !writesFiles[p.Names[i]] {
			continue
		}
		for _, d := range f.Decls {
			if fd, ok := d.(*ast.FuncDecl); ok && fd.Body != nil {
				all = append(all, c.sitesIn(p.Names[i], fd)...)
			}
		}
	}
	var sb strings.Builder
	sb.WriteString(header("Writes", "every store / append / copy / delete / sort / reflect setter in the render-path files with the provenance of the memory written"))
	sb.WriteString("/-- (file, enclosing function, ordinal within the function, operation, target expression, provenance, why) -/\n")
	sb.WriteString("def current : List (String × String × Nat × String × String × String × String) := [\n")
	for i, s := range all {
		sep := ","
		if i == len(all)-1 {
			sep = ""
		}
		fmt.Fprintf(&sb, "  (%s, %s, %d, %s, %s, %s, %s)%s\n", leanStr(s.file), leanStr(s.fn), s.ordinal, leanStr(s.op), leanStr(s.target), leanStr(s.prov.String()), leanStr(s.why), sep)
	}
	sb.WriteString("]\n")
	// does NewRenderContext copy the caller's map entry by entry into a map it owns?
	copies := false
	if fd := p.FuncDecls()["NewRenderContext"]; fd != nil && fd.Body != nil && fd.Type.Params != nil {
		var ctxParam types.Object
		for _, fld := range fd.Type.Params.List {
			for _, n := range fld.Names {
				if o := c.obj(n); o != nil {
					if m, ok := o.Type().Underlying().(*types.Map); ok && !c.libraryType(m.Elem(), 0) {
						ctxParam = o
					}
				}
			}
		}
		ast.Inspect(fd.Body, func(n ast.Node) bool {
			rs, ok := n.(*ast.RangeStmt)
			if !ok || ctxParam == nil || len(rs.Body.List) != 1 {
				return true
			}
			if id, ok := unparen(rs.X).(*ast.Ident); !ok || c.obj(id) != ctxParam {
				return true
			}
			as, ok := rs.Body.List[0].(*ast.AssignStmt)
			if !ok || len(as.Lhs) != 1 || len(as.Rhs) != 1 {
				return true
			}
			ix, ok := as.Lhs[0].(*ast.IndexExpr)
			if !ok {
				return true
			}
			f := c.analyse(fd)
			if pr, _ := f.exprProv(ix.X); pr == pCtx || pr == pFresh {
				k, kok := rs.Key.(*ast.Ident)
				v, vok := rs.Value.(*ast.Ident)
				ik, ikok := ix.Index.(*ast.Ident)
				rv, rvok := as.Rhs[0].(*ast.Ident)
				if kok && vok && ikok && rvok && c.obj(k) == c.obj(ik) && c.obj(v) == c.obj(rv) {
					copies = true
				}
			}
			return true
		})
	}
	fmt.Fprintf(&sb, "\n/-- NewRenderContext copies the caller's top-level map entry by entry into a map owned by the context -/\ndef contextCopied : Bool := %s\n", leanBool(copies))
	sb.WriteString(footer("Writes"))
	return sb.String(), nil
}
