package main

// Emitter `CodecLayout` (property C16): the byte layout of a compiled template as the code writes
// and reads it, for `TwigModel/Codec.lean`.
//
// The functions are found by TYPE:
//
//	serializer    the package function with signature (*CompiledTemplate) ([]byte, error)
//	dispatcher    the exported package function with signature ([]byte) (*CompiledTemplate, error)
//	binary reader the unexported function of that signature that calls encoding/binary.Read
//	gob reader    the unexported function of that signature that calls encoding/gob.NewDecoder
//	string writer the function with signature (io.Writer, string) error called by the serializer
//	string reader the function with signature (*bytes.Reader | io.Reader) (string, error) called by the binary reader
//
// A function body is read as the sequence of its top-level statements; each statement that contains a
// call of binary.Write / binary.Read / the string writer / the string reader / <w>.Write / io.ReadFull,
// a `make([]byte, n)`, or a comparison of a length with <r>.Len() becomes one step:
//
//	u8const v      binary.Write(w, order, uint8(v))
//	u8 x           binary.Read(r, order, &x)                      x : uint8
//	require x v    if x != v { return … error }
//	str f          string writer / string reader on field f
//	i64 f          binary.Write(w, order, c.f) / binary.Read(r, order, &c.f)     f : int64
//	len32 x        binary.Write(w, order, uint32(len(x))) / binary.Read(r, order, &x)   x : uint32
//	check n        if int64(n) > int64(r.Len()) { return … error }
//	alloc x n      x = make([]byte, n) / x := make([]byte, n)
//	bytes x        w.Write(x) / w.Write([]byte(x)) / io.ReadFull(r, x)
//	unknown        anything else that is not plainly harmless (declarations, error checks, returns, defer)
//
// Operands are written `F` for the field F of CompiledTemplate and `$v` for a local or parameter v.
// `byteOrders` lists the byte-order argument of every binary.Read/Write.

import (
	"fmt"
	"go/ast"
	"go/token"
	"go/types"
	"strings"
)

func init() { registerEmitter("CodecLayout", emitCodecLayout) }

type cdlCtx struct {
	p       *Pkg
	unknown []string
	decls   map[*types.Func]*ast.FuncDecl
	orders  []string
}

func (c *cdlCtx) unk(format string, a ...interface{}) {
	c.unknown = append(c.unknown, fmt.Sprintf(format, a...))
}

type cdlStep struct {
	fn   string
	ord  int
	op   string
	a, b string
	n    int64
}

func (s cdlStep) lean() string {
	switch s.op {
	case "u8const":
		return fmt.Sprintf(".u8const %d", s.n)
	case "require":
		return fmt.Sprintf(".require %s %d", leanStr(s.a), s.n)
	case "alloc":
		return fmt.Sprintf(".alloc %s %s", leanStr(s.a), leanStr(s.b))
	case "unknown":
		return ".unknown " + leanStr(s.a)
	}
	return fmt.Sprintf(".%s %s", s.op, leanStr(s.a))
}

// operand name of an expression: field of CompiledTemplate, or local
func (c *cdlCtx) operand(e ast.Expr) string {
	e = fuUnparen(e)
	if ue, ok := e.(*ast.UnaryExpr); ok && ue.Op == token.AND {
		e = fuUnparen(ue.X)
	}
	if f, _, ok := fuFieldSel(c.p, e); ok {
		return f.Name()
	}
	if o := fuObj(c.p, e); o != nil {
		return "$" + o.Name()
	}
	return "?" + types.ExprString(e)
}

func (c *cdlCtx) basicKind(e ast.Expr) types.BasicKind {
	e = fuUnparen(e)
	if ue, ok := e.(*ast.UnaryExpr); ok && ue.Op == token.AND {
		e = ue.X
	}
	if tv, ok := c.p.Info.Types[e]; ok {
		if b, ok := tv.Type.Underlying().(*types.Basic); ok {
			return b.Kind()
		}
	}
	return types.Invalid
}

func (c *cdlCtx) sigIs(fn *types.Func, params []string, results []string) bool {
	sig, ok := fn.Type().(*types.Signature)
	if !ok || sig.Recv() != nil || sig.Params().Len() != len(params) || sig.Results().Len() != len(results) {
		return false
	}
	q := func(pk *types.Package) string { return pk.Name() }
	for i, s := range params {
		if types.TypeString(sig.Params().At(i).Type(), q) != s {
			return false
		}
	}
	for i, s := range results {
		if types.TypeString(sig.Results().At(i).Type(), q) != s {
			return false
		}
	}
	return true
}

// isStrReader: func(*bytes.Reader) (string, error) or func(io.Reader) (string, error)
func (c *cdlCtx) isStrReader(fn *types.Func) bool {
	return c.sigIs(fn, []string{"*bytes.Reader"}, []string{"string", "error"}) || c.sigIs(fn, []string{"io.Reader"}, []string{"string", "error"})
}

// classify one call; ok=false when the call is none of ours
func (c *cdlCtx) classifyCall(call *ast.CallExpr) (cdlStep, bool) {
	p := c.p
	q := fuCalleeQual(p, call)
	fn := fuCallee(p, call)
	switch {
	case (q == "binary.Write" || q == "binary.Read") && fn != nil && fn.Pkg().Path() == "encoding/binary" && len(call.Args) == 3:
		if sel, ok := fuUnparen(call.Args[1]).(*ast.SelectorExpr); ok {
			c.orders = append(c.orders, sel.Sel.Name)
		} else {
			c.orders = append(c.orders, "?"+types.ExprString(call.Args[1]))
		}
		x := fuUnparen(call.Args[2])
		if q == "binary.Write" {
			if conv, ok := x.(*ast.CallExpr); ok && len(conv.Args) == 1 {
				if atcIsConv(p, conv, "uint8") {
					if v, ok := fuConstInt(p, conv.Args[0]); ok {
						return cdlStep{op: "u8const", n: v}, true
					}
				}
				if atcIsConv(p, conv, "uint32") {
					if lc, ok := fuUnparen(conv.Args[0]).(*ast.CallExpr); ok && fuIsBuiltin(p, lc, "len") && len(lc.Args) == 1 {
						return cdlStep{op: "len32", a: c.operand(lc.Args[0])}, true
					}
				}
			}
			if c.basicKind(x) == types.Int64 {
				return cdlStep{op: "i64", a: c.operand(x)}, true
			}
			return cdlStep{op: "unknown", a: types.ExprString(call)}, true
		}
		if ue, ok := x.(*ast.UnaryExpr); !ok || ue.Op != token.AND {
			return cdlStep{op: "unknown", a: types.ExprString(call)}, true
		}
		switch c.basicKind(x) {
		case types.Uint8:
			return cdlStep{op: "u8", a: c.operand(x)}, true
		case types.Uint32:
			return cdlStep{op: "len32", a: c.operand(x)}, true
		case types.Int64:
			return cdlStep{op: "i64", a: c.operand(x)}, true
		}
		return cdlStep{op: "unknown", a: types.ExprString(call)}, true
	case fn != nil && fn.Pkg() == p.Types && c.sigIs(fn, []string{"io.Writer", "string"}, []string{"error"}) && len(call.Args) == 2:
		return cdlStep{op: "str", a: c.operand(call.Args[1]), b: fn.Name()}, true
	case fn != nil && fn.Pkg() == p.Types && c.isStrReader(fn):
		return cdlStep{op: "str", a: "", b: fn.Name()}, true
	case q == "io.ReadFull" && len(call.Args) == 2:
		return cdlStep{op: "bytes", a: c.operand(call.Args[1])}, true
	case fn != nil && fn.Name() == "Write" && len(call.Args) == 1 && (q == "(bytes.Buffer).Write" || q == "(io.Writer).Write"):
		x := fuUnparen(call.Args[0])
		if conv, ok := x.(*ast.CallExpr); ok && len(conv.Args) == 1 {
			if tv, ok := p.Info.Types[conv.Fun]; ok && tv.IsType() {
				x = conv.Args[0] // []byte(s)
			}
		}
		return cdlStep{op: "bytes", a: c.operand(x)}, true
	case fuIsBuiltin(p, call, "make") && len(call.Args) == 2:
		if tv, ok := p.Info.Types[call.Args[0]]; ok && tv.IsType() {
			if sl, ok := tv.Type.Underlying().(*types.Slice); ok {
				if b, ok := sl.Elem().(*types.Basic); ok && b.Kind() == types.Uint8 {
					n := fuUnparen(call.Args[1])
					if conv, ok := n.(*ast.CallExpr); ok && len(conv.Args) == 1 {
						if tv, ok := p.Info.Types[conv.Fun]; ok && tv.IsType() {
							n = conv.Args[0]
						}
					}
					return cdlStep{op: "alloc", b: c.operand(n)}, true
				}
			}
		}
	}
	return cdlStep{}, false
}

// lenCheck: cond is `int64(n) > int64(<r>.Len())` (conversions optional); returns n.
func (c *cdlCtx) lenCheck(cond ast.Expr) (string, bool) {
	be, ok := fuUnparen(cond).(*ast.BinaryExpr)
	if !ok || be.Op != token.GTR {
		return "", false
	}
	strip := func(e ast.Expr) ast.Expr {
		e = fuUnparen(e)
		if conv, ok := e.(*ast.CallExpr); ok && len(conv.Args) == 1 {
			if tv, ok := c.p.Info.Types[conv.Fun]; ok && tv.IsType() {
				return fuUnparen(conv.Args[0])
			}
		}
		return e
	}
	r, ok := strip(be.Y).(*ast.CallExpr)
	if !ok || fuCalleeQual(c.p, r) != "(bytes.Reader).Len" {
		return "", false
	}
	return c.operand(strip(be.X)), true
}

func cdlEndsInErrorReturn(p *Pkg, body *ast.BlockStmt) bool {
	return sbxReturnsError(p, body.List)
}

// steps of a function body (top-level statements only)
func (c *cdlCtx) steps(fd *ast.FuncDecl) []cdlStep {
	p := c.p
	name := funcKey(fd)
	var out []cdlStep
	add := func(s cdlStep) {
		s.fn, s.ord = name, len(out)
		out = append(out, s)
	}
	for _, st := range fd.Body.List {
		// where may the call sit
		var holder ast.Node
		var target ast.Expr // left side receiving the result (str reads, alloc)
		switch x := st.(type) {
		case *ast.IfStmt:
			if x.Init != nil {
				holder = x.Init
				if !cdlEndsInErrorReturn(p, x.Body) || x.Else != nil {
					add(cdlStep{op: "unknown", a: "if with init whose body does not return an error"})
					continue
				}
			} else {
				// require / check / plain error check
				if n, ok := c.lenCheck(x.Cond); ok && cdlEndsInErrorReturn(p, x.Body) && x.Else == nil {
					add(cdlStep{op: "check", a: n})
					continue
				}
				if be, ok := fuUnparen(x.Cond).(*ast.BinaryExpr); ok && be.Op == token.NEQ && x.Else == nil && cdlEndsInErrorReturn(p, x.Body) {
					if tv, ok := p.Info.Types[be.Y]; ok && tv.IsNil() {
						continue // if err != nil { return … }
					}
					if v, ok := fuConstInt(p, be.Y); ok {
						add(cdlStep{op: "require", a: c.operand(be.X), n: v})
						continue
					}
				}
				add(cdlStep{op: "unknown", a: "if " + types.ExprString(x.Cond)})
				continue
			}
		case *ast.AssignStmt:
			holder = x
			if len(x.Lhs) >= 1 {
				target = x.Lhs[0]
			}
		case *ast.ExprStmt:
			holder = x
		case *ast.DeclStmt, *ast.DeferStmt, *ast.ReturnStmt:
			continue
		default:
			add(cdlStep{op: "unknown", a: fmt.Sprintf("%T", st)})
			continue
		}
		found := false
		ast.Inspect(holder, func(n ast.Node) bool {
			call, ok := n.(*ast.CallExpr)
			if !ok || found {
				return true
			}
			if s, ok := c.classifyCall(call); ok {
				found = true
				if as, isAs := holder.(*ast.AssignStmt); isAs && len(as.Lhs) >= 1 && target == nil {
					target = as.Lhs[0]
				}
				if s.op == "str" && s.a == "" && target != nil {
					s.a = c.operand(target)
				}
				if s.op == "alloc" && target != nil {
					s.a = c.operand(target)
				}
				if s.op == "str" {
					s.b = ""
				}
				add(s)
				return false
			}
			return true
		})
	}
	return out
}

func emitCodecLayout(p *Pkg) (string, error) {
	c := &cdlCtx{p: p, decls: map[*types.Func]*ast.FuncDecl{}}
	var serializer, dispatcher, binReader, gobReader, strWriter, strReader *ast.FuncDecl
	callsQual := func(fd *ast.FuncDecl, q string) bool {
		found := false
		ast.Inspect(fd.Body, func(n ast.Node) bool {
			if call, ok := n.(*ast.CallExpr); ok && fuCalleeQual(p, call) == q {
				found = true
			}
			return true
		})
		return found
	}
	for _, u := range fuUnits(p) {
		if u.fd == nil || u.fd.Recv != nil {
			continue
		}
		fn, _ := p.Info.Defs[u.fd.Name].(*types.Func)
		if fn == nil {
			continue
		}
		c.decls[fn] = u.fd
		switch {
		case c.sigIs(fn, []string{"*twig.CompiledTemplate"}, []string{"[]byte", "error"}):
			if serializer != nil {
				c.unk("two serializers: %s and %s", serializer.Name.Name, fn.Name())
			}
			serializer = u.fd
		case c.sigIs(fn, []string{"[]byte"}, []string{"*twig.CompiledTemplate", "error"}):
			switch {
			case fn.Exported():
				dispatcher = u.fd
			case callsQual(u.fd, "binary.Read"):
				binReader = u.fd
			case callsQual(u.fd, "gob.NewDecoder"):
				gobReader = u.fd
			}
		case c.sigIs(fn, []string{"io.Writer", "string"}, []string{"error"}):
			strWriter = u.fd
		case c.isStrReader(fn):
			strReader = u.fd
		}
	}
	var sb strings.Builder
	sb.WriteString(header("CodecLayout", "compiled-template container: the sequence of writes of the serializer and of reads of the deserializer, length checks, the gob fallback"))
	sb.WriteString("inductive Step where\n  | u8const (v : Nat) | u8 (x : String) | require (x : String) (v : Nat) | str (f : String) | i64 (f : String)\n  | len32 (x : String) | check (n : String) | alloc (x n : String) | bytes (x : String) | unknown (what : String)\nderiving DecidableEq, Repr\n\n")
	emitSteps := func(defName, doc string, fd *ast.FuncDecl, what string) {
		var rows []string
		fname := ""
		if fd == nil {
			c.unk("%s not found", what)
		} else {
			fname = funcKey(fd)
			for _, s := range c.steps(fd) {
				rows = append(rows, fmt.Sprintf("(%s, %d, %s)", leanStr(s.fn), s.ord, s.lean()))
			}
		}
		fmt.Fprintf(&sb, "def %sFunc : String := %s\n", defName, leanStr(fname))
		fuTable(&sb, doc, defName+"Rows", "List (String × Nat × Step)", rows)
		fmt.Fprintf(&sb, "def %s : List Step := %sRows.map (·.2.2)\n\n", defName, defName)
	}
	emitSteps("writes", "the serializer, statement by statement", serializer, "serializer func(*CompiledTemplate) ([]byte, error)")
	emitSteps("stringWrites", "the string writer func(io.Writer, string) error", strWriter, "string writer")
	emitSteps("reads", "the binary reader, statement by statement", binReader, "binary reader")
	emitSteps("stringReads", "the string reader func(*bytes.Reader) (string, error)", strReader, "string reader")

	// the string reader returns string(<the buffer it filled>)
	strReaderReturnsData := false
	if strReader != nil {
		if n := len(strReader.Body.List); n > 0 {
			if rs, ok := strReader.Body.List[n-1].(*ast.ReturnStmt); ok && len(rs.Results) == 2 {
				if conv, ok := fuUnparen(rs.Results[0]).(*ast.CallExpr); ok && atcIsConv(p, conv, "string") && len(conv.Args) == 1 {
					if o := fuObj(p, conv.Args[0]); o != nil {
						strReaderReturnsData = true
						fmt.Fprintf(&sb, "/-- the string reader returns `string(<this local>)` -/\ndef stringReaderReturns : String := %s\n\n", leanStr("$"+o.Name()))
					}
				}
			}
		}
	}
	if !strReaderReturnsData {
		sb.WriteString("def stringReaderReturns : String := \"\"\n\n")
	}

	var rows []string
	for _, o := range c.orders {
		rows = append(rows, leanStr(o))
	}
	fuTable(&sb, "byte-order argument of every binary.Read / binary.Write met above", "byteOrders", "List String", rows)

	// ---- dispatcher ------------------------------------------------------------------------------------
	binFirst, guardBeforeGob, emptyRejected := false, false, false
	guardValue := int64(-1)
	if dispatcher == nil {
		c.unk("dispatcher func([]byte) (*CompiledTemplate, error) not found")
	} else {
		var data types.Object
		if len(dispatcher.Type.Params.List) == 1 && len(dispatcher.Type.Params.List[0].Names) == 1 {
			data = p.Info.Defs[dispatcher.Type.Params.List[0].Names[0]]
		}
		binIdx, gobIdx, guardIdx := -1, -1, -1
		for i, st := range dispatcher.Body.List {
			ast.Inspect(st, func(n ast.Node) bool {
				if call, ok := n.(*ast.CallExpr); ok {
					if fn := fuCallee(p, call); fn != nil {
						if binReader != nil && c.decls[fn] == binReader && binIdx < 0 {
							binIdx = i
						}
						if gobReader != nil && c.decls[fn] == gobReader && gobIdx < 0 {
							gobIdx = i
						}
					}
				}
				return true
			})
			ifs, ok := st.(*ast.IfStmt)
			if !ok || ifs.Init != nil || ifs.Else != nil {
				continue
			}
			be, ok := fuUnparen(ifs.Cond).(*ast.BinaryExpr)
			if !ok || be.Op != token.EQL {
				continue
			}
			// len(data) == 0
			if lc, ok := fuUnparen(be.X).(*ast.CallExpr); ok && fuIsBuiltin(p, lc, "len") && len(lc.Args) == 1 && fuObj(p, lc.Args[0]) == data {
				if v, ok := fuConstInt(p, be.Y); ok && v == 0 && cdlEndsInErrorReturn(p, ifs.Body) && binIdx < 0 {
					emptyRejected = true
				}
			}
			// data[0] == v
			if ix, ok := fuUnparen(be.X).(*ast.IndexExpr); ok && fuObj(p, ix.X) == data && data != nil {
				if k, ok := fuConstInt(p, ix.Index); ok && k == 0 {
					if v, ok := fuConstInt(p, be.Y); ok && len(ifs.Body.List) == 1 {
						if _, isRet := ifs.Body.List[0].(*ast.ReturnStmt); isRet && guardIdx < 0 {
							guardIdx, guardValue = i, v
						}
					}
				}
			}
		}
		binFirst = binIdx >= 0 && (gobIdx < 0 || binIdx < gobIdx)
		guardBeforeGob = guardIdx >= 0 && binIdx >= 0 && guardIdx > binIdx && (gobIdx < 0 || guardIdx < gobIdx)
		if gobIdx < 0 {
			// no gob fallback at all: nothing is ever handed to gob
			guardBeforeGob = true
		}
	}
	fmt.Fprintf(&sb, "/-- the dispatcher rejects empty input before anything else -/\ndef emptyRejected : Bool := %s\n/-- the dispatcher tries the binary reader before the gob reader -/\ndef binaryFirst : Bool := %s\n/-- between the two stands `if data[0] == v { return … }` (or there is no gob reader) -/\ndef returnsBeforeGob : Bool := %s\n/-- that v (0 if absent) -/\ndef returnsBeforeGobOn : Nat := %d\n\n",
		leanBool(emptyRejected), leanBool(binFirst), leanBool(guardBeforeGob), max64(guardValue, 0))

	rows = nil
	for _, u := range c.unknown {
		rows = append(rows, leanStr(u))
	}
	fuTable(&sb, "constructs that fitted no schema (must be empty)", "unknown", "List String", rows)
	sb.WriteString(footer("CodecLayout"))
	var err error
	if len(c.unknown) > 0 {
		err = fmt.Errorf("%d construct(s) not recognised: %s", len(c.unknown), strings.Join(c.unknown, "; "))
	}
	return sb.String(), err
}
