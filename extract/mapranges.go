package main

import (
	"fmt"
	"go/ast"
	"go/constant"
	"go/token"
	"go/types"
	"strings"
)

// MapRanges: every place where package twig iterates over a Go map (whose order the runtime
// randomises): `range` statements whose operand has map type and calls of
// reflect.Value.MapKeys / MapRange.  Each site carries its enclosing function, its ordinal among the
// sites of that function, and the *loop schema* its body matches.  The recogniser is deliberately
// conservative: a body is put into an order-insensitive schema only if it matches that schema's
// syntactic shape exactly (identifiers resolved through go/types objects, callees through their
// types.Func); anything else is `orderSensitive` (a shape known to leak the order) or `unknown`.
//
// Schemas (the permutation-invariance lemma of each is in lean/TwigProofs/Lemmas/MapOrder.lean):
//
//	copyAll          D[k] = v   |  D.SetMapIndex(key, m.MapIndex(key))        (D is another map)
//	deleteAll        delete(m, k)                                             (the ranged map itself)
//	collectThenSort  S = append(S, k…) and the first later use of S is sort.Strings/Ints/Float64s(S)
//	collectSortBy    same, but sorted by sort.Slice/SliceStable/Sort with a hand-written comparator
//	anyMatch         if cond(k, v) { return <constants> }
//	minKey           if !found || k < best { best, found = k, true }
//	uniformStore     v.field = <expression free of k and v>
//	evalCopyAll      x, err := f(v); if err != nil { return … }; D[k] = x  |  ctx.SetVariable(k, x)
//	keyedCopy        k2 := f(k); D[k2] = v'                                   (key is transformed)
//	evalKeyedCopy    keyedCopy whose evaluations can fail (early return of the error)
//	guardedFallback  K := X.f; if len(K) != len(X.g) { K = make(…); for k := range X.g { K = append(K, k) } }
//	                 — the keys of the map X.g are collected (unsorted) only when the order slice X.f
//	                 kept beside it does not match; see hashBuilders for who builds such values
//	orderSensitive   returns / appends / writes / progressively rewrites in iteration order
//	unknown          none of the above
//
// Beside the sites: sortedKeyUses (every call of a "sorted keys" function, i.e. one whose body is
// `keys := m.MapKeys(); sort.Slice(keys, less); return keys` — the callers iterate a slice, not a map,
// so they are not sites; the table records that they consume the sorted slice directly),
// the comparator of that function (sortKeyCases / sortKeyFallback), and hashBuilders /
// hashNoOrderReach (who builds the struct whose map is ranged by a guardedFallback site, and whether
// the order slice is filled in step with the map).
//
// DateFmt: the PHP→Go layout table of convertDateFormat and the algorithm that applies it.
func init() {
	registerEmitter("MapRanges", emitMapRanges)
	registerEmitter("DateFmt", emitDateFmt)
}

type mrSite struct {
	file, fn string
	ordinal  int
	kind     string // range | MapKeys | MapRange
	mapType  string
	schema   string
	detail   string
}

type mrCtx struct {
	p      *Pkg
	guards []mrGuard // filled while classifying: the (struct, map field, order field) of every guardedFallback site
}

type mrGuard struct {
	strct              *types.Named
	mapField, ordField string
}

func (c *mrCtx) obj(id *ast.Ident) types.Object {
	if o := c.p.Info.Uses[id]; o != nil {
		return o
	}
	return c.p.Info.Defs[id]
}

func (c *mrCtx) isObj(e ast.Expr, o types.Object) bool {
	e = unparen(e)
	id, ok := e.(*ast.Ident)
	return ok && o != nil && c.obj(id) == o
}

func unparen(e ast.Expr) ast.Expr {
	for {
		p, ok := e.(*ast.ParenExpr)
		if !ok {
			return e
		}
		e = p.X
	}
}

func (c *mrCtx) mentions(n ast.Node, objs ...types.Object) bool {
	found := false
	if n == nil {
		return false
	}
	ast.Inspect(n, func(x ast.Node) bool {
		if id, ok := x.(*ast.Ident); ok {
			o := c.obj(id)
			for _, want := range objs {
				if want != nil && o == want {
					found = true
				}
			}
		}
		return !found
	})
	return found
}

// callee returns the *types.Func a call resolves to (nil for builtins, conversions, func values).
func (c *mrCtx) callee(call *ast.CallExpr) *types.Func {
	switch f := unparen(call.Fun).(type) {
	case *ast.Ident:
		fn, _ := c.obj(f).(*types.Func)
		return fn
	case *ast.SelectorExpr:
		fn, _ := c.obj(f.Sel).(*types.Func)
		return fn
	}
	return nil
}

func (c *mrCtx) isBuiltin(call *ast.CallExpr, name string) bool {
	id, ok := unparen(call.Fun).(*ast.Ident)
	if !ok {
		return false
	}
	b, ok := c.obj(id).(*types.Builtin)
	return ok && b.Name() == name
}

// isMethod: call is recv.M(...) where M resolves to the method `full` (types.Func.FullName()).
func (c *mrCtx) isMethod(call *ast.CallExpr, full string) (recv ast.Expr, ok bool) {
	sel, isSel := unparen(call.Fun).(*ast.SelectorExpr)
	if !isSel {
		return nil, false
	}
	fn := c.callee(call)
	if fn == nil || fn.FullName() != full {
		return nil, false
	}
	return sel.X, true
}

func (c *mrCtx) str(e ast.Expr) string { return types.ExprString(e) }

func (c *mrCtx) isMap(e ast.Expr) bool {
	tv, ok := c.p.Info.Types[e]
	if !ok || tv.Type == nil {
		return false
	}
	_, ok = tv.Type.Underlying().(*types.Map)
	return ok
}

func (c *mrCtx) typeStr(e ast.Expr) string {
	tv, ok := c.p.Info.Types[e]
	if !ok || tv.Type == nil {
		return "?"
	}
	return types.TypeString(tv.Type, func(p *types.Package) string {
		if p == c.p.Types {
			return ""
		}
		return p.Name()
	})
}

// loop describes one iteration construct: the objects bound to key and value, and (for the
// reflect form `for _, key := range rv.MapKeys()`) the receiver whose MapIndex(key) is the value.
type mrLoop struct {
	mapExpr     ast.Expr // the ranged map (nil for reflect)
	reflectRecv ast.Expr // rv in rv.MapKeys()
	key, val    types.Object
	body        *ast.BlockStmt
	stmt        ast.Stmt   // the range statement
	stack       []ast.Node // ancestors of stmt, outermost first
}

func (c *mrCtx) isKey(l *mrLoop, e ast.Expr) bool { return c.isObj(e, l.key) }

// isKeyIface: key, or key.Interface() in the reflect form
func (c *mrCtx) isKeyIface(l *mrLoop, e ast.Expr) bool {
	e = unparen(e)
	if c.isKey(l, e) {
		return true
	}
	if call, ok := e.(*ast.CallExpr); ok && l.reflectRecv != nil && len(call.Args) == 0 {
		if recv, ok := c.isMethod(call, "(reflect.Value).Interface"); ok {
			return c.isKey(l, recv)
		}
	}
	return false
}

// isVal: the value variable; in the reflect form rv.MapIndex(key) optionally followed by .Interface()
func (c *mrCtx) isVal(l *mrLoop, e ast.Expr) bool {
	e = unparen(e)
	if l.val != nil && c.isObj(e, l.val) {
		return true
	}
	if l.reflectRecv == nil {
		return false
	}
	call, ok := e.(*ast.CallExpr)
	if !ok {
		return false
	}
	if recv, ok := c.isMethod(call, "(reflect.Value).Interface"); ok && len(call.Args) == 0 {
		if inner, ok := unparen(recv).(*ast.CallExpr); ok {
			call = inner
		} else {
			return false
		}
	}
	if recv, ok := c.isMethod(call, "(reflect.Value).MapIndex"); ok && len(call.Args) == 1 {
		return c.str(recv) == c.str(l.reflectRecv) && c.isKey(l, call.Args[0])
	}
	return false
}

func (c *mrCtx) loopObjs(l *mrLoop) []types.Object { return []types.Object{l.key, l.val} }

// ---- schema recognisers ------------------------------------------------------------------------

func (c *mrCtx) classifyLoop(l *mrLoop) (string, string) {
	stmts := l.body.List
	if len(stmts) == 0 {
		return "anyMatch", "empty body"
	}
	if s, d, ok := c.recDeleteAll(l, stmts); ok {
		return s, d
	}
	if s, d, ok := c.recStoreChain(l, stmts); ok {
		return s, d
	}
	if s, d, ok := c.recAnyMatch(l, stmts); ok {
		return s, d
	}
	if s, d, ok := c.recMinKey(l, stmts); ok {
		return s, d
	}
	if s, d, ok := c.recCollect(l, stmts); ok {
		return s, d
	}
	if s, d, ok := c.recUniformStore(l, stmts); ok {
		return s, d
	}
	if d, ok := c.recOrderSensitive(l, stmts); ok {
		return "orderSensitive", d
	}
	return "unknown", "body matches no schema"
}

func (c *mrCtx) recDeleteAll(l *mrLoop, stmts []ast.Stmt) (string, string, bool) {
	if len(stmts) != 1 || l.mapExpr == nil {
		return "", "", false
	}
	es, ok := stmts[0].(*ast.ExprStmt)
	if !ok {
		return "", "", false
	}
	call, ok := es.X.(*ast.CallExpr)
	if !ok || !c.isBuiltin(call, "delete") || len(call.Args) != 2 {
		return "", "", false
	}
	if c.str(call.Args[0]) == c.str(l.mapExpr) && c.isKey(l, call.Args[1]) {
		return "deleteAll", "delete(" + c.str(l.mapExpr) + ", key)", true
	}
	return "", "", false
}

// recStoreChain matches straight-line bodies
//
//	{ a[, err] := f(<loop-derived>) ; if err != nil { return … } }*  ;  STORE
//
// where STORE is D[kexpr] = vexpr, D.SetMapIndex(kexpr, vexpr) or ctx.SetVariable(kexpr, vexpr).
// Variables defined in the body are tagged with what they derive from (key / value); the schema
// follows from whether the stored key is the loop key itself and whether evaluation can fail.
func (c *mrCtx) recStoreChain(l *mrLoop, stmts []ast.Stmt) (string, string, bool) {
	const (
		fromKey = 1
		fromVal = 2
	)
	derived := map[types.Object]int{}
	taint := func(e ast.Expr) int {
		t := 0
		ast.Inspect(e, func(x ast.Node) bool {
			if id, ok := x.(*ast.Ident); ok {
				o := c.obj(id)
				if o == nil {
					return true
				}
				if o == l.key {
					t |= fromKey
				}
				if l.val != nil && o == l.val {
					t |= fromVal
				}
				t |= derived[o]
			}
			return true
		})
		if l.reflectRecv != nil {
			// rv.MapIndex(key) is the value
			ast.Inspect(e, func(x ast.Node) bool {
				if call, ok := x.(*ast.CallExpr); ok {
					if _, ok := c.isMethod(call, "(reflect.Value).MapIndex"); ok {
						t |= fromVal
					}
				}
				return true
			})
		}
		return t
	}
	var errObj types.Object
	fallible := false
	var transforms []string
	last := stmts[len(stmts)-1]
	for i, s := range stmts[:len(stmts)-1] {
		switch x := s.(type) {
		case *ast.AssignStmt:
			if len(x.Rhs) != 1 || (x.Tok != token.DEFINE && x.Tok != token.ASSIGN) {
				return "", "", false
			}
			call, ok := unparen(x.Rhs[0]).(*ast.CallExpr)
			if !ok {
				return "", "", false
			}
			t := taint(call)
			if t == 0 {
				return "", "", false
			}
			for j, lhs := range x.Lhs {
				id, ok := lhs.(*ast.Ident)
				if !ok {
					return "", "", false
				}
				o := c.obj(id)
				if o == nil {
					continue
				}
				if j == len(x.Lhs)-1 && len(x.Lhs) == 2 && types.Identical(o.Type(), types.Universe.Lookup("error").Type()) {
					errObj = o
					continue
				}
				// only variables local to the body may be assigned
				if !(o.Pos() >= l.body.Pos() && o.Pos() < l.body.End()) {
					return "", "", false
				}
				derived[o] = t
			}
			transforms = append(transforms, c.str(call.Fun))
		case *ast.IfStmt:
			// if err != nil { return <no loop variables> }
			if x.Init != nil || x.Else != nil || errObj == nil {
				return "", "", false
			}
			be, ok := x.Cond.(*ast.BinaryExpr)
			if !ok || be.Op != token.NEQ || !c.isObj(be.X, errObj) || c.str(be.Y) != "nil" {
				return "", "", false
			}
			if len(x.Body.List) != 1 {
				return "", "", false
			}
			ret, ok := x.Body.List[0].(*ast.ReturnStmt)
			if !ok {
				return "", "", false
			}
			for _, r := range ret.Results {
				if taint(r) != 0 {
					return "", "", false
				}
			}
			fallible = true
		default:
			_ = i
			return "", "", false
		}
	}
	// the store
	var kexpr, vexpr, dst ast.Expr
	storeKind := ""
	switch x := last.(type) {
	case *ast.AssignStmt:
		if x.Tok != token.ASSIGN || len(x.Lhs) != 1 || len(x.Rhs) != 1 {
			return "", "", false
		}
		ix, ok := unparen(x.Lhs[0]).(*ast.IndexExpr)
		if !ok || !c.isMap(ix.X) {
			return "", "", false
		}
		dst, kexpr, vexpr, storeKind = ix.X, ix.Index, x.Rhs[0], "map store"
	case *ast.ExprStmt:
		call, ok := x.X.(*ast.CallExpr)
		if !ok || len(call.Args) != 2 {
			return "", "", false
		}
		if recv, ok := c.isMethod(call, "(reflect.Value).SetMapIndex"); ok {
			dst, kexpr, vexpr, storeKind = recv, call.Args[0], call.Args[1], "reflect SetMapIndex"
		} else if recv, ok := c.isMethod(call, "(*"+c.p.Types.Path()+".RenderContext).SetVariable"); ok && c.setVariableIsMapStore() {
			dst, kexpr, vexpr, storeKind = recv, call.Args[0], call.Args[1], "RenderContext.SetVariable"
		} else {
			return "", "", false
		}
	default:
		return "", "", false
	}
	// destination must not be the ranged map and must not depend on the iteration
	if taint(dst) != 0 {
		return "", "", false
	}
	if l.mapExpr != nil && c.str(dst) == c.str(l.mapExpr) {
		return "", "", false
	}
	if l.reflectRecv != nil && c.str(dst) == c.str(l.reflectRecv) {
		return "", "", false
	}
	keySame := c.isKey(l, kexpr)
	if !keySame && l.reflectRecv != nil && storeKind == "map store" {
		// D[key.Interface()] would still be the same key, but is not used anywhere; treat as transformed
		keySame = false
	}
	kt := taint(kexpr)
	if !keySame && (kt&fromKey == 0 || kt&fromVal != 0) {
		return "", "", false // key not a function of the loop key alone
	}
	vt := taint(vexpr)
	if vt&fromKey != 0 && !c.isVal(l, vexpr) {
		// value may depend on the key as well (it is a function of the entry); still per-entry
	}
	if vt == 0 {
		// a constant is stored under every key: also order-insensitive, report as copyAll
	}
	detail := storeKind + " into " + c.str(dst)
	if len(transforms) > 0 {
		detail += " via " + strings.Join(transforms, ", ")
	}
	switch {
	case keySame && !fallible:
		return "copyAll", detail, true
	case keySame && fallible:
		return "evalCopyAll", detail, true
	case !keySame && !fallible:
		return "keyedCopy", detail, true
	default:
		return "evalKeyedCopy", detail, true
	}
}

// setVariableIsMapStore checks that RenderContext.SetVariable is exactly `ctx.context[name] = value`.
func (c *mrCtx) setVariableIsMapStore() bool {
	fd := c.p.FuncDecls()["RenderContext.SetVariable"]
	if fd == nil || fd.Body == nil || len(fd.Body.List) != 1 || len(fd.Type.Params.List) == 0 {
		return false
	}
	as, ok := fd.Body.List[0].(*ast.AssignStmt)
	if !ok || as.Tok != token.ASSIGN || len(as.Lhs) != 1 || len(as.Rhs) != 1 {
		return false
	}
	ix, ok := as.Lhs[0].(*ast.IndexExpr)
	if !ok || !c.isMap(ix.X) {
		return false
	}
	var params []types.Object
	for _, f := range fd.Type.Params.List {
		for _, n := range f.Names {
			params = append(params, c.obj(n))
		}
	}
	return len(params) == 2 && c.isObj(ix.Index, params[0]) && c.isObj(as.Rhs[0], params[1])
}

func (c *mrCtx) isConstResult(e ast.Expr) bool {
	e = unparen(e)
	if tv, ok := c.p.Info.Types[e]; ok && (tv.Value != nil || tv.IsNil()) {
		return true
	}
	return false
}

func (c *mrCtx) recAnyMatch(l *mrLoop, stmts []ast.Stmt) (string, string, bool) {
	if len(stmts) != 1 {
		return "", "", false
	}
	ifs, ok := stmts[0].(*ast.IfStmt)
	if !ok || ifs.Init != nil || ifs.Else != nil || len(ifs.Body.List) != 1 {
		return "", "", false
	}
	if !c.mentions(ifs.Cond, l.key, l.val) {
		return "", "", false
	}
	ret, ok := ifs.Body.List[0].(*ast.ReturnStmt)
	if !ok {
		return "", "", false
	}
	for _, r := range ret.Results {
		if !c.isConstResult(r) {
			return "", "", false
		}
	}
	var rs []string
	for _, r := range ret.Results {
		rs = append(rs, c.str(r))
	}
	return "anyMatch", "if " + c.str(ifs.Cond) + " { return " + strings.Join(rs, ", ") + " }", true
}

func (c *mrCtx) recMinKey(l *mrLoop, stmts []ast.Stmt) (string, string, bool) {
	if len(stmts) != 1 {
		return "", "", false
	}
	ifs, ok := stmts[0].(*ast.IfStmt)
	if !ok || ifs.Init != nil || ifs.Else != nil || len(ifs.Body.List) != 1 {
		return "", "", false
	}
	or, ok := unparen(ifs.Cond).(*ast.BinaryExpr)
	if !ok || or.Op != token.LOR {
		return "", "", false
	}
	not, ok := unparen(or.X).(*ast.UnaryExpr)
	if !ok || not.Op != token.NOT {
		return "", "", false
	}
	foundID, ok := unparen(not.X).(*ast.Ident)
	if !ok {
		return "", "", false
	}
	lt, ok := unparen(or.Y).(*ast.BinaryExpr)
	if !ok || lt.Op != token.LSS || !c.isKey(l, lt.X) {
		return "", "", false
	}
	bestID, ok := unparen(lt.Y).(*ast.Ident)
	if !ok {
		return "", "", false
	}
	// comparison must be the built-in order of a basic type (string or numeric)
	if tv, ok := c.p.Info.Types[lt.X]; !ok || tv.Type == nil {
		return "", "", false
	} else if b, ok := tv.Type.Underlying().(*types.Basic); !ok || b.Info()&(types.IsString|types.IsInteger) == 0 {
		return "", "", false
	}
	as, ok := ifs.Body.List[0].(*ast.AssignStmt)
	if !ok || as.Tok != token.ASSIGN || len(as.Lhs) != 2 || len(as.Rhs) != 2 {
		return "", "", false
	}
	best, found := c.obj(bestID), c.obj(foundID)
	okAssign := true
	for i := range as.Lhs {
		switch {
		case c.isObj(as.Lhs[i], best):
			okAssign = okAssign && c.isKey(l, as.Rhs[i])
		case c.isObj(as.Lhs[i], found):
			tv := c.p.Info.Types[as.Rhs[i]]
			okAssign = okAssign && tv.Value != nil && tv.Value.Kind() == constant.Bool && constant.BoolVal(tv.Value)
		default:
			okAssign = false
		}
	}
	if !okAssign || best == found {
		return "", "", false
	}
	return "minKey", "selects the least key by built-in <", true
}

// lenMismatchGuard recognises, around the collecting range statement of l (ranging the field X.g),
//
//	K := X.f
//	if len(K) != len(X.g) {
//		K = make(…)
//		for k := range X.g { K = append(K, k) }   // ← l
//	}
//
// i.e. the map is ranged only when the order slice kept beside it in the same struct does not have
// the map's length.  Returns the guard as text.
func (c *mrCtx) lenMismatchGuard(l *mrLoop, slice types.Object) (string, bool) {
	n := len(l.stack)
	if l.mapExpr == nil || n < 3 {
		return "", false
	}
	body, ok := l.stack[n-1].(*ast.BlockStmt)
	if !ok {
		return "", false
	}
	ifs, ok := l.stack[n-2].(*ast.IfStmt)
	if !ok || ifs.Body != body || ifs.Else != nil || ifs.Init != nil || len(body.List) != 2 || body.List[1] != l.stmt {
		return "", false
	}
	// K = make(…)
	mk, ok := body.List[0].(*ast.AssignStmt)
	if !ok || mk.Tok != token.ASSIGN || len(mk.Lhs) != 1 || len(mk.Rhs) != 1 || !c.isObj(mk.Lhs[0], slice) {
		return "", false
	}
	if call, ok := unparen(mk.Rhs[0]).(*ast.CallExpr); !ok || !c.isBuiltin(call, "make") {
		return "", false
	}
	// len(K) != len(X.g)
	ne, ok := unparen(ifs.Cond).(*ast.BinaryExpr)
	if !ok || ne.Op != token.NEQ {
		return "", false
	}
	lenOf := func(e ast.Expr) ast.Expr {
		call, ok := unparen(e).(*ast.CallExpr)
		if !ok || !c.isBuiltin(call, "len") || len(call.Args) != 1 {
			return nil
		}
		return call.Args[0]
	}
	x, y := lenOf(ne.X), lenOf(ne.Y)
	if x == nil || y == nil {
		return "", false
	}
	if !c.isObj(x, slice) {
		x, y = y, x
	}
	if !c.isObj(x, slice) || c.str(y) != c.str(l.mapExpr) {
		return "", false
	}
	msel, ok := unparen(l.mapExpr).(*ast.SelectorExpr)
	if !ok {
		return "", false
	}
	// K := X.f directly before the if statement
	var prev ast.Stmt
	var list []ast.Stmt
	switch b := l.stack[n-3].(type) {
	case *ast.BlockStmt:
		list = b.List
	case *ast.CaseClause:
		list = b.Body
	}
	for i, s := range list {
		if s == ast.Stmt(ifs) && i > 0 {
			prev = list[i-1]
		}
	}
	def, ok := prev.(*ast.AssignStmt)
	if !ok || def.Tok != token.DEFINE || len(def.Lhs) != 1 || len(def.Rhs) != 1 || !c.isObj(def.Lhs[0], slice) {
		return "", false
	}
	osel, ok := unparen(def.Rhs[0]).(*ast.SelectorExpr)
	if !ok || c.str(osel.X) != c.str(msel.X) {
		return "", false
	}
	ms, os := c.p.Info.Selections[msel], c.p.Info.Selections[osel]
	if ms == nil || os == nil || ms.Kind() != types.FieldVal || os.Kind() != types.FieldVal {
		return "", false
	}
	named := namedStruct(ms.Recv())
	if named == nil || namedStruct(os.Recv()) != named {
		return "", false
	}
	c.guards = append(c.guards, mrGuard{strct: named, mapField: msel.Sel.Name, ordField: osel.Sel.Name})
	return "len(" + c.str(osel) + ") != len(" + c.str(msel) + ")", true
}

func namedStruct(t types.Type) *types.Named {
	if p, ok := t.(*types.Pointer); ok {
		t = p.Elem()
	}
	n, ok := t.(*types.Named)
	if !ok {
		return nil
	}
	if _, ok := n.Underlying().(*types.Struct); !ok {
		return nil
	}
	return n
}

type mrBuilder struct {
	fn, how, detail string
}

// hashBuilders: every place that builds or rewrites a value of a struct type whose map field is ranged by
// a guardedFallback site, and how the order field is treated there:
//
//	inStep     composite literal {g: I, f: O} where, in the enclosing function, every `I[k] = v` is directly
//	           followed by `O = append(O, k)` and I, O are used nowhere else (so len(O) counts the stores)
//	empty      composite literal with neither field
//	cleared    X.g = nil together with X.f = nil
//	noOrder    X.g = <value> together with X.f = nil, or a literal with g only: the fallback is reachable
//	anything else is reported verbatim (notInStep, orderOnly, stale, …) and fails the Lean check.
//
// hashNoOrderReach: the functions that contain a noOrder builder or refer (transitively) to one that does.
func (c *mrCtx) hashBuilders() (builders []mrBuilder, reach []string) {
	if len(c.guards) == 0 {
		return nil, nil
	}
	type fnode struct {
		name string
		refs map[*types.Func]bool
		self *types.Func
	}
	var fns []*fnode
	noOrderFns := map[*types.Func]bool{}
	for _, g := range c.guards {
		for i, f := range c.p.Files {
			for _, d := range f.Decls {
				name := "<package-level " + c.p.Names[i] + ">"
				var self *types.Func
				var root ast.Node = d
				if fd, ok := d.(*ast.FuncDecl); ok {
					if fd.Body == nil {
						continue
					}
					name = funcKey(fd)
					self, _ = c.obj(fd.Name).(*types.Func)
				}
				for _, b := range c.buildersIn(root, g) {
					b.fn = name
					builders = append(builders, b)
					if b.how == "noOrder" && self != nil {
						noOrderFns[self] = true
					}
				}
			}
		}
	}
	for _, f := range c.p.Files {
		for _, d := range f.Decls {
			fd, ok := d.(*ast.FuncDecl)
			if !ok || fd.Body == nil {
				continue
			}
			self, _ := c.obj(fd.Name).(*types.Func)
			n := &fnode{name: funcKey(fd), refs: map[*types.Func]bool{}, self: self}
			ast.Inspect(fd.Body, func(x ast.Node) bool {
				if id, ok := x.(*ast.Ident); ok {
					if fn, ok := c.obj(id).(*types.Func); ok && fn.Pkg() == c.p.Types {
						n.refs[fn] = true
					}
				}
				return true
			})
			fns = append(fns, n)
		}
	}
	reached := map[*types.Func]bool{}
	for f := range noOrderFns {
		reached[f] = true
	}
	for changed := true; changed; {
		changed = false
		for _, n := range fns {
			if n.self == nil || reached[n.self] {
				continue
			}
			for r := range n.refs {
				if reached[r] {
					reached[n.self] = true
					changed = true
					break
				}
			}
		}
	}
	for _, n := range fns {
		if n.self != nil && reached[n.self] {
			reach = append(reach, n.name)
		}
	}
	return builders, reach
}

func (c *mrCtx) buildersIn(root ast.Node, g mrGuard) []mrBuilder {
	var out []mrBuilder
	isT := func(e ast.Expr) bool {
		tv, ok := c.p.Info.Types[e]
		return ok && tv.Type != nil && namedStruct(tv.Type) == g.strct
	}
	isNil := func(e ast.Expr) bool {
		tv, ok := c.p.Info.Types[e]
		return ok && tv.IsNil()
	}
	// assignments X.field = rhs on a value of the struct type, grouped by block and base
	type fieldAssign struct {
		base  string
		field string
		nilv  bool
	}
	perBlock := map[ast.Node][]fieldAssign{}
	var stack []ast.Node
	ast.Inspect(root, func(n ast.Node) bool {
		if n == nil {
			stack = stack[:len(stack)-1]
			return true
		}
		switch x := n.(type) {
		case *ast.CompositeLit:
			if isT(x) {
				var gi, fi ast.Expr
				for _, el := range x.Elts {
					kv, ok := el.(*ast.KeyValueExpr)
					if !ok {
						continue
					}
					if id, ok := kv.Key.(*ast.Ident); ok {
						switch id.Name {
						case g.mapField:
							gi = kv.Value
						case g.ordField:
							fi = kv.Value
						}
					}
				}
				switch {
				case gi == nil && fi == nil:
					out = append(out, mrBuilder{how: "empty", detail: "composite literal without " + g.mapField + " and " + g.ordField})
				case gi != nil && fi == nil:
					out = append(out, mrBuilder{how: "noOrder", detail: "composite literal with " + g.mapField + " only"})
				case gi == nil:
					out = append(out, mrBuilder{how: "orderOnly", detail: "composite literal with " + g.ordField + " only"})
				default:
					how, d := "notInStep", "composite literal {"+g.mapField+": "+c.str(gi)+", "+g.ordField+": "+c.str(fi)+"}"
					if c.filledInStep(root, gi, fi) {
						how = "inStep"
					}
					out = append(out, mrBuilder{how: how, detail: d})
				}
			}
		case *ast.AssignStmt:
			if x.Tok == token.ASSIGN && len(x.Lhs) == len(x.Rhs) {
				for i, lhs := range x.Lhs {
					sel, ok := unparen(lhs).(*ast.SelectorExpr)
					if !ok || !isT(sel.X) || (sel.Sel.Name != g.mapField && sel.Sel.Name != g.ordField) {
						continue
					}
					var blk ast.Node
					if len(stack) > 0 {
						blk = stack[len(stack)-1]
					}
					perBlock[blk] = append(perBlock[blk], fieldAssign{base: c.str(sel.X), field: sel.Sel.Name, nilv: isNil(x.Rhs[i])})
				}
			}
		}
		stack = append(stack, n)
		return true
	})
	for _, as := range perBlock {
		byBase := map[string]map[string]fieldAssign{}
		var bases []string
		for _, a := range as {
			if byBase[a.base] == nil {
				byBase[a.base] = map[string]fieldAssign{}
				bases = append(bases, a.base)
			}
			byBase[a.base][a.field] = a
		}
		for _, base := range bases {
			m, hasM := byBase[base][g.mapField]
			o, hasO := byBase[base][g.ordField]
			d := base + "." + g.mapField + " / ." + g.ordField + " assigned"
			switch {
			case hasM && hasO && m.nilv && o.nilv:
				out = append(out, mrBuilder{how: "cleared", detail: d + " nil"})
			case hasM && hasO && !m.nilv && o.nilv:
				out = append(out, mrBuilder{how: "noOrder", detail: base + "." + g.mapField + " = <value>, ." + g.ordField + " = nil"})
			case hasM && !hasO:
				out = append(out, mrBuilder{how: "stale", detail: base + "." + g.mapField + " assigned, ." + g.ordField + " left as it is"})
			case !hasM && hasO && o.nilv:
				out = append(out, mrBuilder{how: "noOrder", detail: base + "." + g.ordField + " = nil alone"})
			default:
				out = append(out, mrBuilder{how: "orderWrite", detail: d})
			}
		}
	}
	return out
}

// filledInStep: gi and fi are local variables I and O of the function `root`; every `I[k] = v` is directly
// followed by `O = append(O, k)` (same k), and I and O occur nowhere else apart from their declarations
// (`I := make(map…)`, `var O []T`) and the composite literal.
func (c *mrCtx) filledInStep(root ast.Node, gi, fi ast.Expr) bool {
	gid, ok1 := unparen(gi).(*ast.Ident)
	fid, ok2 := unparen(fi).(*ast.Ident)
	if !ok1 || !ok2 {
		return false
	}
	I, O := c.obj(gid), c.obj(fid)
	if I == nil || O == nil || I == O {
		return false
	}
	stores, okStores := 0, true
	check := func(list []ast.Stmt) {
		for i, s := range list {
			as, ok := s.(*ast.AssignStmt)
			if !ok || as.Tok != token.ASSIGN || len(as.Lhs) != 1 || len(as.Rhs) != 1 {
				continue
			}
			ix, ok := unparen(as.Lhs[0]).(*ast.IndexExpr)
			if !ok || !c.isObj(ix.X, I) {
				continue
			}
			stores++
			kid, ok := unparen(ix.Index).(*ast.Ident)
			if !ok || c.mentions(as.Rhs[0], I, O) || i+1 >= len(list) {
				okStores = false
				continue
			}
			nx, ok := list[i+1].(*ast.AssignStmt)
			if !ok || nx.Tok != token.ASSIGN || len(nx.Lhs) != 1 || len(nx.Rhs) != 1 || !c.isObj(nx.Lhs[0], O) {
				okStores = false
				continue
			}
			call, ok := unparen(nx.Rhs[0]).(*ast.CallExpr)
			if !ok || !c.isBuiltin(call, "append") || len(call.Args) != 2 || call.Ellipsis.IsValid() ||
				!c.isObj(call.Args[0], O) || !c.isObj(call.Args[1], c.obj(kid)) {
				okStores = false
			}
		}
	}
	usesI, usesO := 0, 0
	ast.Inspect(root, func(n ast.Node) bool {
		switch x := n.(type) {
		case *ast.BlockStmt:
			check(x.List)
		case *ast.CaseClause:
			check(x.Body)
		case *ast.Ident:
			switch c.obj(x) {
			case I:
				usesI++
			case O:
				usesO++
			}
		}
		return true
	})
	// I: declaration + one per store + the literal; O: declaration + two per store + the literal
	return okStores && stores > 0 && usesI == stores+2 && usesO == 2*stores+2
}

// following returns the statements after l.stmt in its enclosing block.
func followingStmts(stmt ast.Stmt, stack []ast.Node) []ast.Stmt {
	for i := len(stack) - 1; i >= 0; i-- {
		var list []ast.Stmt
		switch b := stack[i].(type) {
		case *ast.BlockStmt:
			list = b.List
		case *ast.CaseClause:
			list = b.Body
		case *ast.CommClause:
			list = b.Body
		default:
			continue
		}
		for j, s := range list {
			if s == stmt {
				return list[j+1:]
			}
		}
		return nil
	}
	return nil
}

// sortAfter: the first statement after `stmt` that mentions obj must be a call of package sort with
// obj as first argument. Returns the sort function's name.
func (c *mrCtx) sortAfter(stmt ast.Stmt, stack []ast.Node, obj types.Object) (string, bool) {
	for _, s := range followingStmts(stmt, stack) {
		if !c.mentions(s, obj) {
			continue
		}
		es, ok := s.(*ast.ExprStmt)
		if !ok {
			return "", false
		}
		call, ok := es.X.(*ast.CallExpr)
		if !ok || len(call.Args) == 0 || !c.isObj(call.Args[0], obj) {
			return "", false
		}
		fn := c.callee(call)
		if fn == nil || fn.Pkg() == nil || fn.Pkg().Path() != "sort" {
			return "", false
		}
		return fn.Name(), true
	}
	return "", false
}

func sortSchema(sortFn string) string {
	switch sortFn {
	case "Strings", "Ints", "Float64s":
		return "collectThenSort"
	}
	return "collectSortBy"
}

func (c *mrCtx) recCollect(l *mrLoop, stmts []ast.Stmt) (string, string, bool) {
	if len(stmts) != 1 {
		return "", "", false
	}
	s := stmts[0]
	guard := ""
	if ifs, ok := s.(*ast.IfStmt); ok && ifs.Init == nil && ifs.Else == nil && len(ifs.Body.List) == 1 && c.mentions(ifs.Cond, l.key, l.val) {
		guard = " if " + c.str(ifs.Cond)
		s = ifs.Body.List[0]
	}
	as, ok := s.(*ast.AssignStmt)
	if !ok || as.Tok != token.ASSIGN || len(as.Lhs) != 1 || len(as.Rhs) != 1 {
		return "", "", false
	}
	call, ok := unparen(as.Rhs[0]).(*ast.CallExpr)
	if !ok || !c.isBuiltin(call, "append") || len(call.Args) != 2 || call.Ellipsis.IsValid() {
		return "", "", false
	}
	sid, ok := unparen(as.Lhs[0]).(*ast.Ident)
	if !ok || !c.isObj(call.Args[0], c.obj(sid)) {
		return "", "", false
	}
	if !c.mentions(call.Args[1], l.key, l.val) {
		return "", "", false
	}
	slice := c.obj(sid)
	fn, sorted := c.sortAfter(l.stmt, l.stack, slice)
	if !sorted {
		if g, ok := c.lenMismatchGuard(l, slice); ok && guard == "" {
			return "guardedFallback", "taken only when " + g + "; appends to " + sid.Name + " and uses it without sorting", true
		}
		return "orderSensitive", "appends to " + sid.Name + guard + " and uses it without sorting", true
	}
	return sortSchema(fn), "appends to " + sid.Name + guard + ", then sort." + fn, true
}

func (c *mrCtx) recUniformStore(l *mrLoop, stmts []ast.Stmt) (string, string, bool) {
	if len(stmts) != 1 || l.val == nil {
		return "", "", false
	}
	as, ok := stmts[0].(*ast.AssignStmt)
	if !ok || as.Tok != token.ASSIGN || len(as.Lhs) != 1 || len(as.Rhs) != 1 {
		return "", "", false
	}
	sel, ok := unparen(as.Lhs[0]).(*ast.SelectorExpr)
	if !ok {
		return "", "", false
	}
	if s := c.p.Info.Selections[sel]; s == nil || s.Kind() != types.FieldVal {
		return "", "", false
	}
	base := unparen(sel.X)
	if ta, ok := base.(*ast.TypeAssertExpr); ok {
		base = unparen(ta.X)
	}
	if st, ok := base.(*ast.StarExpr); ok {
		base = unparen(st.X)
	}
	if !c.isObj(base, l.val) {
		return "", "", false
	}
	if c.mentions(as.Rhs[0], l.key, l.val) {
		return "", "", false
	}
	return "uniformStore", "every value gets ." + sel.Sel.Name + " = " + c.str(as.Rhs[0]), true
}

func (c *mrCtx) recOrderSensitive(l *mrLoop, stmts []ast.Stmt) (string, bool) {
	// unconditional return of something that depends on the entry: the first entry wins
	if ret, ok := stmts[0].(*ast.ReturnStmt); ok {
		for _, r := range ret.Results {
			if c.mentions(r, l.key, l.val) || (l.reflectRecv != nil && c.isVal(l, r)) {
				return "returns the first entry visited", true
			}
		}
	}
	reason := ""
	ast.Inspect(l.body, func(n ast.Node) bool {
		if reason != "" {
			return false
		}
		switch x := n.(type) {
		case *ast.AssignStmt:
			// x = f(x, k, v): progressive rewrite
			if x.Tok == token.ASSIGN && len(x.Lhs) == 1 && len(x.Rhs) == 1 {
				if id, ok := x.Lhs[0].(*ast.Ident); ok {
					o := c.obj(id)
					if call, ok := unparen(x.Rhs[0]).(*ast.CallExpr); ok && !c.isBuiltin(call, "append") &&
						c.mentions(call, o) && c.mentions(call, l.key, l.val) {
						reason = id.Name + " is rewritten progressively by " + c.str(call.Fun)
					}
				}
			}
		case *ast.CallExpr:
			if fn := c.callee(x); fn != nil {
				name := fn.Name()
				if (strings.HasPrefix(name, "Write") || name == "Render" || strings.HasPrefix(name, "Fprint")) && c.mentions(x, l.key, l.val) {
					reason = "writes output per entry (" + name + ")"
				}
			}
		}
		return true
	})
	return reason, reason != ""
}

// ---- site enumeration ---------------------------------------------------------------------------

func (c *mrCtx) sitesOf(fnName, file string, root ast.Node) []mrSite {
	var sites []mrSite
	var stack []ast.Node
	handledCalls := map[*ast.CallExpr]bool{}
	ast.Inspect(root, func(n ast.Node) bool {
		if n == nil {
			stack = stack[:len(stack)-1]
			return true
		}
		switch x := n.(type) {
		case *ast.RangeStmt:
			if c.isMap(x.X) {
				l := &mrLoop{mapExpr: x.X, body: x.Body, stmt: x, stack: append([]ast.Node(nil), stack...)}
				if id, ok := x.Key.(*ast.Ident); ok && id.Name != "_" {
					l.key = c.obj(id)
				}
				if id, ok := x.Value.(*ast.Ident); ok && id.Name != "_" {
					l.val = c.obj(id)
				}
				sc, d := c.classifyLoop(l)
				sites = append(sites, mrSite{file: file, fn: fnName, kind: "range", mapType: c.typeStr(x.X), schema: sc, detail: d})
			} else if call, ok := unparen(x.X).(*ast.CallExpr); ok {
				if recv, ok := c.isMethod(call, "(reflect.Value).MapKeys"); ok {
					handledCalls[call] = true
					l := &mrLoop{reflectRecv: recv, body: x.Body, stmt: x, stack: append([]ast.Node(nil), stack...)}
					if id, ok := x.Value.(*ast.Ident); ok && id.Name != "_" {
						l.key = c.obj(id)
					}
					sc, d := "unknown", "MapKeys ranged with an index variable"
					if x.Key == nil || c.str(x.Key) == "_" {
						sc, d = c.classifyLoop(l)
					}
					sites = append(sites, mrSite{file: file, fn: fnName, kind: "MapKeys", mapType: "reflect:" + c.str(recv), schema: sc, detail: d})
				}
			}
		case *ast.AssignStmt:
			// keys := m.MapKeys(); <first use must be a sort>
			if len(x.Lhs) == 1 && len(x.Rhs) == 1 {
				if call, ok := unparen(x.Rhs[0]).(*ast.CallExpr); ok {
					if recv, ok := c.isMethod(call, "(reflect.Value).MapKeys"); ok {
						handledCalls[call] = true
						sc, d := "unknown", "MapKeys result stored in a non-variable"
						if id, ok := x.Lhs[0].(*ast.Ident); ok {
							if fn, sorted := c.sortAfter(x, stack, c.obj(id)); sorted {
								sc, d = sortSchema(fn), id.Name+" := MapKeys(), then sort."+fn
							} else {
								sc, d = "orderSensitive", id.Name+" := MapKeys() is used without sorting"
							}
						}
						sites = append(sites, mrSite{file: file, fn: fnName, kind: "MapKeys", mapType: "reflect:" + c.str(recv), schema: sc, detail: d})
					}
				}
			}
		case *ast.CallExpr:
			if !handledCalls[x] {
				if recv, ok := c.isMethod(x, "(reflect.Value).MapKeys"); ok {
					sites = append(sites, mrSite{file: file, fn: fnName, kind: "MapKeys", mapType: "reflect:" + c.str(recv), schema: "unknown", detail: "MapKeys in an unrecognised position"})
				} else if recv, ok := c.isMethod(x, "(reflect.Value).MapRange"); ok {
					sites = append(sites, mrSite{file: file, fn: fnName, kind: "MapRange", mapType: "reflect:" + c.str(recv), schema: "unknown", detail: "MapRange iterator"})
				}
			}
		}
		stack = append(stack, n)
		return true
	})
	for i := range sites {
		sites[i].ordinal = i
	}
	return sites
}

func (c *mrCtx) allSites() []mrSite {
	var all []mrSite
	for i, f := range c.p.Files {
		for _, d := range f.Decls {
			switch x := d.(type) {
			case *ast.FuncDecl:
				if x.Body != nil {
					all = append(all, c.sitesOf(funcKey(x), c.p.Names[i], x.Body)...)
				}
			case *ast.GenDecl:
				all = append(all, c.sitesOf("<package-level "+c.p.Names[i]+">", c.p.Names[i], x)...)
			}
		}
	}
	return all
}

// sortKeyComparator describes the `less` closure given to sort.Slice inside a sorted-keys function:
//
//	a, b := keys[i], keys[j]
//	switch a.Kind() { case K…: return a.M() < b.M() … }
//	{ x, y := P(a.Interface()), P(b.Interface()); if x != y { return x < y } }*
//	return P(a.Interface()) < P(b.Interface())
//
// cases: (reflect.Kind, accessor); the accessor is the reflect.Value method compared with `<`, or
// "FloatNaNFirst" for `af, bf := a.Float(), b.Float(); if af != af || bf != bf { return af != af && bf == bf }; return af < bf`.
// fallback: the printers P of the tail, in order, joined by " then " ("fmt.Sprint", "fmt.Sprintf %T", …).
func (c *mrCtx) sortKeyComparator() (fnName string, cases [][2]string, fallback string) {
	fallback = "none"
	for name, fd := range c.p.FuncDecls() {
		if fd.Body == nil {
			continue
		}
		// the function whose body contains `keys := m.MapKeys(); sort.Slice(keys, less)`
		var lit *ast.FuncLit
		ast.Inspect(fd.Body, func(n ast.Node) bool {
			call, ok := n.(*ast.CallExpr)
			if !ok || len(call.Args) != 2 {
				return true
			}
			fn := c.callee(call)
			if fn == nil || fn.Pkg() == nil || fn.Pkg().Path() != "sort" || fn.Name() != "Slice" {
				return true
			}
			tv, ok := c.p.Info.Types[call.Args[0]]
			if !ok || tv.Type == nil || tv.Type.String() != "[]reflect.Value" {
				return true
			}
			if fl, ok := call.Args[1].(*ast.FuncLit); ok {
				lit = fl
			}
			return true
		})
		if lit == nil {
			continue
		}
		fnName = name
		cases, fallback = c.comparatorOf(lit)
		return
	}
	return "", nil, "none"
}

// lessOfCalls: e is `F(a…) < F(b…)` where both sides are calls of the same function/method and the left
// one is about `a`, the right one about `b`; returns the two calls.
func (c *mrCtx) lessOfCalls(e ast.Expr) (l, r *ast.CallExpr, ok bool) {
	be, isBin := unparen(e).(*ast.BinaryExpr)
	if !isBin || be.Op != token.LSS {
		return nil, nil, false
	}
	l, lok := unparen(be.X).(*ast.CallExpr)
	r, rok := unparen(be.Y).(*ast.CallExpr)
	if !lok || !rok {
		return nil, nil, false
	}
	lf, rf := c.callee(l), c.callee(r)
	if lf == nil || lf != rf {
		return nil, nil, false
	}
	return l, r, true
}

// printerOf: call is fmt.Sprint(k.Interface()) or fmt.Sprintf("<const>", k.Interface()) for the key object k
func (c *mrCtx) printerOf(call *ast.CallExpr, k types.Object) (string, bool) {
	fn := c.callee(call)
	if fn == nil {
		return "", false
	}
	isKeyIface := func(e ast.Expr) bool {
		ic, ok := unparen(e).(*ast.CallExpr)
		if !ok || len(ic.Args) != 0 {
			return false
		}
		recv, ok := c.isMethod(ic, "(reflect.Value).Interface")
		return ok && c.isObj(recv, k)
	}
	switch fn.FullName() {
	case "fmt.Sprint":
		if len(call.Args) == 1 && isKeyIface(call.Args[0]) {
			return "fmt.Sprint", true
		}
	case "fmt.Sprintf":
		if len(call.Args) == 2 && isKeyIface(call.Args[1]) {
			if tv, ok := c.p.Info.Types[call.Args[0]]; ok && tv.Value != nil && tv.Value.Kind() == constant.String {
				return "fmt.Sprintf " + constant.StringVal(tv.Value), true
			}
		}
	}
	return "", false
}

func (c *mrCtx) comparatorOf(lit *ast.FuncLit) (cases [][2]string, fallback string) {
	fallback = "none"
	stmts := lit.Body.List
	// a, b := keys[i], keys[j]
	var a, b types.Object
	if len(stmts) > 0 {
		if as, ok := stmts[0].(*ast.AssignStmt); ok && as.Tok == token.DEFINE && len(as.Lhs) == 2 && len(as.Rhs) == 2 {
			var params []types.Object
			for _, f := range lit.Type.Params.List {
				for _, n := range f.Names {
					params = append(params, c.obj(n))
				}
			}
			ix0, ok0 := unparen(as.Rhs[0]).(*ast.IndexExpr)
			ix1, ok1 := unparen(as.Rhs[1]).(*ast.IndexExpr)
			if ok0 && ok1 && len(params) == 2 && c.isObj(ix0.Index, params[0]) && c.isObj(ix1.Index, params[1]) && c.str(ix0.X) == c.str(ix1.X) {
				a, b = c.obj(as.Lhs[0].(*ast.Ident)), c.obj(as.Lhs[1].(*ast.Ident))
				stmts = stmts[1:]
			}
		}
	}
	if a == nil || b == nil {
		return nil, "unrecognised"
	}
	// accessorLess: e is a.M() < b.M()
	accessorLess := func(e ast.Expr) (string, bool) {
		l, r, ok := c.lessOfCalls(e)
		if !ok || len(l.Args) != 0 || len(r.Args) != 0 {
			return "", false
		}
		lf := c.callee(l)
		if lf.Pkg() == nil || lf.Pkg().Path() != "reflect" {
			return "", false
		}
		ls, lok := unparen(l.Fun).(*ast.SelectorExpr)
		rs, rok := unparen(r.Fun).(*ast.SelectorExpr)
		if !lok || !rok || !c.isObj(ls.X, a) || !c.isObj(rs.X, b) {
			return "", false
		}
		return lf.Name(), true
	}
	// nanFirst: af, bf := a.Float(), b.Float(); if af != af || bf != bf { return af != af && bf == bf }; return af < bf
	nanFirst := func(body []ast.Stmt) bool {
		if len(body) != 3 {
			return false
		}
		as, ok := body[0].(*ast.AssignStmt)
		if !ok || as.Tok != token.DEFINE || len(as.Lhs) != 2 || len(as.Rhs) != 2 {
			return false
		}
		isFloatOf := func(e ast.Expr, k types.Object) bool {
			call, ok := unparen(e).(*ast.CallExpr)
			if !ok || len(call.Args) != 0 {
				return false
			}
			recv, ok := c.isMethod(call, "(reflect.Value).Float")
			return ok && c.isObj(recv, k)
		}
		if !isFloatOf(as.Rhs[0], a) || !isFloatOf(as.Rhs[1], b) {
			return false
		}
		af, bf := c.obj(as.Lhs[0].(*ast.Ident)), c.obj(as.Lhs[1].(*ast.Ident))
		cmp := func(e ast.Expr, op token.Token, x, y types.Object) bool {
			be, ok := unparen(e).(*ast.BinaryExpr)
			return ok && be.Op == op && c.isObj(be.X, x) && c.isObj(be.Y, y)
		}
		ifs, ok := body[1].(*ast.IfStmt)
		if !ok || ifs.Init != nil || ifs.Else != nil || len(ifs.Body.List) != 1 {
			return false
		}
		or, ok := unparen(ifs.Cond).(*ast.BinaryExpr)
		if !ok || or.Op != token.LOR || !cmp(or.X, token.NEQ, af, af) || !cmp(or.Y, token.NEQ, bf, bf) {
			return false
		}
		ret, ok := ifs.Body.List[0].(*ast.ReturnStmt)
		if !ok || len(ret.Results) != 1 {
			return false
		}
		and, ok := unparen(ret.Results[0]).(*ast.BinaryExpr)
		if !ok || and.Op != token.LAND || !cmp(and.X, token.NEQ, af, af) || !cmp(and.Y, token.EQL, bf, bf) {
			return false
		}
		last, ok := body[2].(*ast.ReturnStmt)
		return ok && len(last.Results) == 1 && cmp(last.Results[0], token.LSS, af, bf)
	}
	var stages []string
	bad := false
	for i := 0; i < len(stmts); i++ {
		switch x := stmts[i].(type) {
		case *ast.SwitchStmt:
			tag, ok := x.Tag.(*ast.CallExpr)
			if !ok || x.Init != nil {
				return nil, "unrecognised"
			}
			if recv, ok := c.isMethod(tag, "(reflect.Value).Kind"); !ok || !c.isObj(recv, a) {
				return nil, "unrecognised"
			}
			for _, cc := range x.Body.List {
				cl := cc.(*ast.CaseClause)
				acc := "unrecognised"
				if len(cl.Body) == 1 {
					if ret, ok := cl.Body[0].(*ast.ReturnStmt); ok && len(ret.Results) == 1 {
						if m, ok := accessorLess(ret.Results[0]); ok {
							acc = m
						}
					}
				} else if nanFirst(cl.Body) {
					acc = "FloatNaNFirst"
				}
				if cl.List == nil {
					stages = append(stages, "default:"+acc)
					bad = true
					continue
				}
				for _, e := range cl.List {
					k := "?"
					if sel, ok := e.(*ast.SelectorExpr); ok {
						if cn, ok := c.obj(sel.Sel).(*types.Const); ok && cn.Pkg() != nil && cn.Pkg().Path() == "reflect" {
							k = sel.Sel.Name
						}
					}
					cases = append(cases, [2]string{k, acc})
				}
			}
		case *ast.AssignStmt:
			// x, y := P(a.Interface()), P(b.Interface()); if x != y { return x < y }
			if x.Tok != token.DEFINE || len(x.Lhs) != 2 || len(x.Rhs) != 2 || i+1 >= len(stmts) {
				bad = true
				continue
			}
			lc, lok := unparen(x.Rhs[0]).(*ast.CallExpr)
			rc, rok := unparen(x.Rhs[1]).(*ast.CallExpr)
			if !lok || !rok {
				bad = true
				continue
			}
			pa, oka := c.printerOf(lc, a)
			pb, okb := c.printerOf(rc, b)
			xo, yo := c.obj(x.Lhs[0].(*ast.Ident)), c.obj(x.Lhs[1].(*ast.Ident))
			ifs, ok := stmts[i+1].(*ast.IfStmt)
			if !oka || !okb || pa != pb || !ok || ifs.Init != nil || ifs.Else != nil || len(ifs.Body.List) != 1 {
				bad = true
				continue
			}
			ne, ok := unparen(ifs.Cond).(*ast.BinaryExpr)
			ret, ok2 := ifs.Body.List[0].(*ast.ReturnStmt)
			if !ok || !ok2 || ne.Op != token.NEQ || !c.isObj(ne.X, xo) || !c.isObj(ne.Y, yo) || len(ret.Results) != 1 {
				bad = true
				continue
			}
			lt, ok := unparen(ret.Results[0]).(*ast.BinaryExpr)
			if !ok || lt.Op != token.LSS || !c.isObj(lt.X, xo) || !c.isObj(lt.Y, yo) {
				bad = true
				continue
			}
			stages = append(stages, pa)
			i++ // the if statement
		case *ast.ReturnStmt:
			if len(x.Results) != 1 || i != len(stmts)-1 {
				bad = true
				continue
			}
			l, r, ok := c.lessOfCalls(x.Results[0])
			if !ok {
				bad = true
				continue
			}
			pa, oka := c.printerOf(l, a)
			pb, okb := c.printerOf(r, b)
			if !oka || !okb || pa != pb {
				bad = true
				continue
			}
			stages = append(stages, pa)
		default:
			bad = true
		}
	}
	if bad {
		return cases, "unrecognised"
	}
	if len(stages) == 0 {
		return cases, "none"
	}
	return cases, strings.Join(stages, " then ")
}

// sortedKeysFuncs: package-level functions `func f(m reflect.Value) []reflect.Value` whose body is exactly
// `keys := m.MapKeys(); sort.Slice(keys, <func literal>); return keys`.
func (c *mrCtx) sortedKeysFuncs() map[*types.Func]bool {
	out := map[*types.Func]bool{}
	for _, fd := range c.p.FuncDecls() {
		if fd.Body == nil || fd.Recv != nil || len(fd.Body.List) != 3 || len(fd.Type.Params.List) != 1 || len(fd.Type.Params.List[0].Names) != 1 {
			continue
		}
		param := c.obj(fd.Type.Params.List[0].Names[0])
		as, ok := fd.Body.List[0].(*ast.AssignStmt)
		if !ok || as.Tok != token.DEFINE || len(as.Lhs) != 1 || len(as.Rhs) != 1 {
			continue
		}
		call, ok := unparen(as.Rhs[0]).(*ast.CallExpr)
		if !ok {
			continue
		}
		recv, ok := c.isMethod(call, "(reflect.Value).MapKeys")
		if !ok || !c.isObj(recv, param) {
			continue
		}
		keys := c.obj(as.Lhs[0].(*ast.Ident))
		es, ok := fd.Body.List[1].(*ast.ExprStmt)
		if !ok {
			continue
		}
		sc, ok := es.X.(*ast.CallExpr)
		if !ok || len(sc.Args) != 2 || !c.isObj(sc.Args[0], keys) {
			continue
		}
		if fn := c.callee(sc); fn == nil || fn.FullName() != "sort.Slice" {
			continue
		}
		if _, ok := sc.Args[1].(*ast.FuncLit); !ok {
			continue
		}
		ret, ok := fd.Body.List[2].(*ast.ReturnStmt)
		if !ok || len(ret.Results) != 1 || !c.isObj(ret.Results[0], keys) {
			continue
		}
		if fn, ok := c.obj(fd.Name).(*types.Func); ok {
			out[fn] = true
		}
	}
	return out
}

type mrUse struct {
	file, fn string
	ordinal  int
	callee   string
	use      string
}

// sortedKeyUses: every call of a sorted-keys function and how its result is consumed:
// "range" (for _, key := range f(rv)), "assign" (keys := f(rv)), "other".
func (c *mrCtx) sortedKeyUses() []mrUse {
	funcs := c.sortedKeysFuncs()
	var uses []mrUse
	if len(funcs) == 0 {
		return uses
	}
	for i, f := range c.p.Files {
		for _, d := range f.Decls {
			fd, ok := d.(*ast.FuncDecl)
			if !ok || fd.Body == nil {
				continue
			}
			n := 0
			how := map[*ast.CallExpr]string{}
			ast.Inspect(fd.Body, func(x ast.Node) bool {
				switch s := x.(type) {
				case *ast.RangeStmt:
					if call, ok := unparen(s.X).(*ast.CallExpr); ok && (s.Key == nil || c.str(s.Key) == "_") {
						how[call] = "range"
					}
				case *ast.AssignStmt:
					if len(s.Lhs) == 1 && len(s.Rhs) == 1 {
						if call, ok := unparen(s.Rhs[0]).(*ast.CallExpr); ok {
							if _, isID := s.Lhs[0].(*ast.Ident); isID {
								how[call] = "assign"
							}
						}
					}
				case *ast.CallExpr:
					if fn := c.callee(s); fn != nil && funcs[fn] {
						u := how[s]
						if u == "" {
							u = "other"
						}
						uses = append(uses, mrUse{file: c.p.Names[i], fn: funcKey(fd), ordinal: n, callee: fn.Name(), use: u})
						n++
					}
				}
				return true
			})
		}
	}
	return uses
}

func emitMapRanges(p *Pkg) (string, error) {
	c := &mrCtx{p: p}
	sites := c.allSites()
	var sb strings.Builder
	sb.WriteString(header("MapRanges", "every iteration over a Go map in package twig (range over a map type, reflect MapKeys/MapRange) with the loop schema it matches"))
	sb.WriteString("/-- (file, enclosing function, ordinal within the function, kind, map type, schema, detail) -/\n")
	sb.WriteString("def current : List (String × String × Nat × String × String × String × String) := [\n")
	for i, s := range sites {
		sep := ","
		if i == len(sites)-1 {
			sep = ""
		}
		fmt.Fprintf(&sb, "  (%s, %s, %d, %s, %s, %s, %s)%s\n", leanStr(s.file), leanStr(s.fn), s.ordinal, leanStr(s.kind), leanStr(s.mapType), leanStr(s.schema), leanStr(s.detail), sep)
	}
	sb.WriteString("]\n\n")
	fn, cases, fb := c.sortKeyComparator()
	sb.WriteString("/-- the comparator handed to sort.Slice over reflect map keys: function, (reflect.Kind, accessor compared with <), fallback -/\n")
	fmt.Fprintf(&sb, "def sortKeyFunc : String := %s\n", leanStr(fn))
	sb.WriteString("def sortKeyCases : List (String × String) := [")
	for i, cs := range cases {
		if i > 0 {
			sb.WriteString(", ")
		}
		fmt.Fprintf(&sb, "(%s, %s)", leanStr(cs[0]), leanStr(cs[1]))
	}
	sb.WriteString("]\n")
	fmt.Fprintf(&sb, "def sortKeyFallback : String := %s\n\n", leanStr(fb))
	sb.WriteString("/-- every call of a sorted-keys function (body: MapKeys, sort.Slice, return) and how the sorted slice is consumed:\n    (file, enclosing function, ordinal, callee, range | assign | other) -/\n")
	sb.WriteString("def sortedKeyUses : List (String × String × Nat × String × String) := [")
	for i, u := range c.sortedKeyUses() {
		if i > 0 {
			sb.WriteString(",")
		}
		fmt.Fprintf(&sb, "\n  (%s, %s, %d, %s, %s)", leanStr(u.file), leanStr(u.fn), u.ordinal, leanStr(u.callee), leanStr(u.use))
	}
	sb.WriteString("]\n\n")
	builders, reach := c.hashBuilders()
	sb.WriteString("/-- who builds the struct whose map a guardedFallback site ranges, and how its order slice is treated there:\n    (enclosing function, inStep | empty | cleared | noOrder | …, detail) -/\n")
	sb.WriteString("def hashBuilders : List (String × String × String) := [")
	for i, b := range builders {
		if i > 0 {
			sb.WriteString(",")
		}
		fmt.Fprintf(&sb, "\n  (%s, %s, %s)", leanStr(b.fn), leanStr(b.how), leanStr(b.detail))
	}
	sb.WriteString("]\n")
	sb.WriteString("/-- functions that contain a noOrder builder or refer, transitively, to one that does -/\n")
	sb.WriteString("def hashNoOrderReach : List String := [")
	for i, r := range reach {
		if i > 0 {
			sb.WriteString(", ")
		}
		sb.WriteString(leanStr(r))
	}
	sb.WriteString("]\n")
	sb.WriteString(footer("MapRanges"))
	return sb.String(), nil
}

// ---- DateFmt -----------------------------------------------------------------------------------

func emitDateFmt(p *Pkg) (string, error) {
	c := &mrCtx{p: p}
	fd := p.FuncDecls()["convertDateFormat"]
	var sb strings.Builder
	sb.WriteString(header("DateFmt", "convertDateFormat: the PHP→Go layout table and the algorithm applying it"))
	var table [][2]string
	schema := "unknown"
	var err error
	if fd == nil || fd.Body == nil {
		err = fmt.Errorf("convertDateFormat not found")
	} else {
		var tableObj types.Object
		// the table: a map[string]string composite literal with constant keys and values
		ast.Inspect(fd.Body, func(n ast.Node) bool {
			as, ok := n.(*ast.AssignStmt)
			if !ok || len(as.Lhs) != 1 || len(as.Rhs) != 1 {
				return true
			}
			cl, ok := as.Rhs[0].(*ast.CompositeLit)
			if !ok || !c.isMap(cl) || table != nil {
				return true
			}
			if id, ok := as.Lhs[0].(*ast.Ident); ok {
				tableObj = c.obj(id)
			}
			for _, el := range cl.Elts {
				kv, ok := el.(*ast.KeyValueExpr)
				if !ok {
					continue
				}
				ktv, vtv := p.Info.Types[kv.Key], p.Info.Types[kv.Value]
				if ktv.Value == nil || vtv.Value == nil || ktv.Value.Kind() != constant.String || vtv.Value.Kind() != constant.String {
					table = append(table, [2]string{"<non-constant>", ""})
					continue
				}
				table = append(table, [2]string{constant.StringVal(ktv.Value), constant.StringVal(vtv.Value)})
			}
			return true
		})
		var param types.Object
		if len(fd.Type.Params.List) == 1 && len(fd.Type.Params.List[0].Names) == 1 {
			param = c.obj(fd.Type.Params.List[0].Names[0])
		}
		nRanges, nMapRanges := 0, 0
		single, replaceAll := false, false
		ast.Inspect(fd.Body, func(n ast.Node) bool {
			rs, ok := n.(*ast.RangeStmt)
			if !ok {
				return true
			}
			nRanges++
			if c.isMap(rs.X) {
				nMapRanges++
				// for k, v := range table { r = strings.ReplaceAll(r, k, v) }
				if len(rs.Body.List) == 1 {
					if as, ok := rs.Body.List[0].(*ast.AssignStmt); ok && len(as.Rhs) == 1 {
						if call, ok := as.Rhs[0].(*ast.CallExpr); ok {
							if fn := c.callee(call); fn != nil && fn.FullName() == "strings.ReplaceAll" && c.isObj(rs.X, tableObj) {
								replaceAll = true
							}
						}
					}
				}
				return true
			}
			// for _, ch := range format { if g, ok := table[string(ch)]; ok { B.WriteString(g) } else { B.WriteRune(ch) } }
			if !c.isObj(rs.X, param) || len(rs.Body.List) != 1 {
				return true
			}
			chID, ok := rs.Value.(*ast.Ident)
			if !ok {
				return true
			}
			ch := c.obj(chID)
			ifs, ok := rs.Body.List[0].(*ast.IfStmt)
			if !ok || ifs.Init == nil || ifs.Else == nil {
				return true
			}
			init, ok := ifs.Init.(*ast.AssignStmt)
			if !ok || len(init.Lhs) != 2 || len(init.Rhs) != 1 {
				return true
			}
			ix, ok := init.Rhs[0].(*ast.IndexExpr)
			if !ok || !c.isObj(ix.X, tableObj) {
				return true
			}
			conv, ok := ix.Index.(*ast.CallExpr)
			if !ok || len(conv.Args) != 1 || !c.isObj(conv.Args[0], ch) || !p.Info.Types[conv.Fun].IsType() {
				return true
			}
			g, okv := c.obj(init.Lhs[0].(*ast.Ident)), c.obj(init.Lhs[1].(*ast.Ident))
			if !c.isObj(ifs.Cond, okv) {
				return true
			}
			thenOK, elseOK := false, false
			if len(ifs.Body.List) == 1 {
				if es, ok := ifs.Body.List[0].(*ast.ExprStmt); ok {
					if call, ok := es.X.(*ast.CallExpr); ok && len(call.Args) == 1 && c.isObj(call.Args[0], g) {
						if _, ok := c.isMethod(call, "(*strings.Builder).WriteString"); ok {
							thenOK = true
						}
					}
				}
			}
			if eb, ok := ifs.Else.(*ast.BlockStmt); ok && len(eb.List) == 1 {
				if es, ok := eb.List[0].(*ast.ExprStmt); ok {
					if call, ok := es.X.(*ast.CallExpr); ok && len(call.Args) == 1 && c.isObj(call.Args[0], ch) {
						if _, ok := c.isMethod(call, "(*strings.Builder).WriteRune"); ok {
							elseOK = true
						}
					}
				}
			}
			single = thenOK && elseOK
			return true
		})
		switch {
		case single && nRanges == 1 && nMapRanges == 0:
			schema = "singlePass"
		case replaceAll && nRanges == 1:
			schema = "mapRangeReplaceAll"
		}
		if schema == "unknown" {
			err = fmt.Errorf("convertDateFormat: algorithm not recognised")
		}
	}
	sb.WriteString("/-- PHP date letter ↦ Go reference-time layout, in source order -/\n")
	sb.WriteString("def table : List (String × String) := [\n")
	for i, kv := range table {
		sep := ","
		if i == len(table)-1 {
			sep = ""
		}
		fmt.Fprintf(&sb, "  (%s, %s)%s\n", leanStr(kv[0]), leanStr(kv[1]), sep)
	}
	sb.WriteString("]\n\n")
	sb.WriteString("/-- singlePass: one left-to-right pass over the format, one table lookup per character;\n    mapRangeReplaceAll: strings.ReplaceAll per table entry while ranging over the table (a Go map) -/\n")
	fmt.Fprintf(&sb, "def schema : String := %s\n\n", leanStr(schema))
	sb.WriteString("def current : List (String × String) × String := (table, schema)\n")
	sb.WriteString(footer("DateFmt"))
	return sb.String(), err
}
