package main

import (
	"fmt"
	"go/ast"
	"go/token"
	"go/types"
	"sort"
	"strings"
)

// Sandbox: the facts property C06 is parameterised by.
//
//   - every dynamic invocation of a user callback, found by TYPE: a call whose callee expression has
//     the named type FilterFunc or FunctionFunc of the package; for each, whether a policy check
//     (`<ctx>.sandboxed && … && !<policy>.IsFilterAllowed(<name>)` resp. IsFunctionAllowed, returning an
//     error) dominates it in its function, for the very name the callee was looked up with;
//   - the check on the outermost Filter/Function node at the top of EvaluateExpression;
//   - every construction of a render context (NewRenderContext(…), <ctx>.Clone()) and whether the
//     new context inherits `sandboxed` from the current one.
//
// Anything that matches no schema is emitted as `unknown`, which makes the derived fact false.
func init() { registerEmitter("Sandbox", emitSandbox) }

type sbxCallSite struct {
	kind, fn string
	ord      int
	guard    string
	pos      token.Pos
}

type sbxCtxSite struct {
	ctor, fn string
	ord      int
	prop     string
	pos      token.Pos
}

// sbxNamedOf returns the name of the package-level named type of t ("" if none / other package).
func sbxNamedOf(p *Pkg, t types.Type) string {
	if t == nil {
		return ""
	}
	if ptr, ok := t.(*types.Pointer); ok {
		t = ptr.Elem()
	}
	if n, ok := t.(*types.Named); ok && n.Obj() != nil && n.Obj().Pkg() == p.Types {
		return n.Obj().Name()
	}
	return ""
}

// sbxSortedFuncs returns the function declarations in (file, position) order with their keys.
func sbxSortedFuncs(p *Pkg) []*ast.FuncDecl {
	var out []*ast.FuncDecl
	for _, f := range p.Files {
		for _, d := range f.Decls {
			if fd, ok := d.(*ast.FuncDecl); ok && fd.Body != nil {
				out = append(out, fd)
			}
		}
	}
	return out
}

// sbxPathTo returns the chain of nodes from root down to (and including) target.
func sbxPathTo(root ast.Node, target ast.Node) []ast.Node {
	var path, found []ast.Node
	ast.Inspect(root, func(n ast.Node) bool {
		if found != nil {
			return false
		}
		if n == nil {
			path = path[:len(path)-1]
			return false
		}
		path = append(path, n)
		if n == target {
			found = append([]ast.Node(nil), path...)
			return false
		}
		return true
	})
	return found
}

// sbxIsSandboxedField: expr is `<x>.sandboxed` selecting the bool field of RenderContext.
func sbxIsSandboxedField(p *Pkg, e ast.Expr) (base ast.Expr, ok bool) {
	sel, isSel := e.(*ast.SelectorExpr)
	if !isSel {
		return nil, false
	}
	s := p.Info.Selections[sel]
	if s == nil || s.Kind() != types.FieldVal || s.Obj().Name() != "sandboxed" {
		return nil, false
	}
	if sbxNamedOf(p, s.Recv()) != "RenderContext" {
		return nil, false
	}
	return sel.X, true
}

func sbxConjuncts(e ast.Expr) []ast.Expr {
	if pe, ok := e.(*ast.ParenExpr); ok {
		return sbxConjuncts(pe.X)
	}
	if be, ok := e.(*ast.BinaryExpr); ok && be.Op == token.LAND {
		return append(sbxConjuncts(be.X), sbxConjuncts(be.Y)...)
	}
	return []ast.Expr{e}
}

// sbxPolicyCall: expr is `!<x>.<method>(<arg>)` with <method> a method of SecurityPolicy; returns the argument.
func sbxPolicyCall(p *Pkg, e ast.Expr, method string) (arg ast.Expr, ok bool) {
	ue, isU := e.(*ast.UnaryExpr)
	if !isU || ue.Op != token.NOT {
		return nil, false
	}
	call, isC := ue.X.(*ast.CallExpr)
	if !isC || len(call.Args) != 1 {
		return nil, false
	}
	sel, isSel := call.Fun.(*ast.SelectorExpr)
	if !isSel || sel.Sel.Name != method {
		return nil, false
	}
	s := p.Info.Selections[sel]
	if s == nil || s.Kind() != types.MethodVal || sbxNamedOf(p, s.Recv()) != "SecurityPolicy" {
		return nil, false
	}
	return call.Args[0], true
}

func sbxIsNilCheck(p *Pkg, e ast.Expr) bool {
	be, ok := e.(*ast.BinaryExpr)
	if !ok || be.Op != token.NEQ {
		return false
	}
	tv, ok := p.Info.Types[be.Y]
	return ok && tv.IsNil()
}

// sbxReturnsError: the statement list ends in a return whose last result is not the nil literal.
func sbxReturnsError(p *Pkg, stmts []ast.Stmt) bool {
	if len(stmts) == 0 {
		return false
	}
	rs, ok := stmts[len(stmts)-1].(*ast.ReturnStmt)
	if !ok || len(rs.Results) == 0 {
		return false
	}
	last := rs.Results[len(rs.Results)-1]
	if tv, ok := p.Info.Types[last]; ok && tv.IsNil() {
		return false
	}
	return true
}

// sbxSameObject: both expressions are identifiers (or field selections) denoting the same object.
func sbxSameObject(p *Pkg, a, b ast.Expr) bool {
	oa, ob := sbxObjOf(p, a), sbxObjOf(p, b)
	return oa != nil && oa == ob
}

func sbxObjOf(p *Pkg, e ast.Expr) types.Object {
	switch x := e.(type) {
	case *ast.Ident:
		if o := p.Info.Uses[x]; o != nil {
			return o
		}
		return p.Info.Defs[x]
	case *ast.ParenExpr:
		return sbxObjOf(p, x.X)
	}
	return nil
}

// sbxLookupNameOf: the callee is an identifier defined by `<callee>, ok := <map>[<name>]`; returns <name>.
func sbxLookupNameOf(p *Pkg, fd *ast.FuncDecl, callee ast.Expr) ast.Expr {
	id, ok := callee.(*ast.Ident)
	if !ok {
		return nil
	}
	obj := p.Info.Uses[id]
	if obj == nil {
		return nil
	}
	var name ast.Expr
	ast.Inspect(fd.Body, func(n ast.Node) bool {
		as, ok := n.(*ast.AssignStmt)
		if !ok || len(as.Lhs) == 0 || len(as.Rhs) != 1 {
			return true
		}
		l, ok := as.Lhs[0].(*ast.Ident)
		if !ok || p.Info.Defs[l] != obj {
			return true
		}
		if ix, ok := as.Rhs[0].(*ast.IndexExpr); ok {
			name = ix.Index
		}
		return true
	})
	return name
}

// sbxClassifyGuard decides whether a policy check for `method` on the looked-up name dominates `call` in fd.
func sbxClassifyGuard(p *Pkg, fd *ast.FuncDecl, call *ast.CallExpr, method string) string {
	name := sbxLookupNameOf(p, fd, call.Fun)
	if name == nil {
		return "unknown"
	}
	path := sbxPathTo(fd.Body, call)
	if path == nil {
		return "unknown"
	}
	result := "unguarded"
	// every block on the path: statements of that block preceding the one that contains the call
	for i, n := range path {
		blk, ok := n.(*ast.BlockStmt)
		if !ok || i+1 >= len(path) {
			continue
		}
		for _, st := range blk.List {
			if st == path[i+1] {
				break
			}
			ifs, ok := st.(*ast.IfStmt)
			if !ok || ifs.Init != nil {
				continue
			}
			g := sbxGuardOf(p, ifs, method, name)
			if g == "" {
				continue
			}
			if g == "unknown" {
				if result == "unguarded" {
					result = "unknown"
				}
				continue
			}
			return g
		}
	}
	return result
}

// sbxGuardOf: "" = this if statement is not a policy check for `method`; otherwise its classification.
func sbxGuardOf(p *Pkg, ifs *ast.IfStmt, method string, name ast.Expr) string {
	cs := sbxConjuncts(ifs.Cond)
	hasFlag, hasCall := false, false
	other := false
	for _, c := range cs {
		if _, ok := sbxIsSandboxedField(p, c); ok {
			hasFlag = true
			continue
		}
		if arg, ok := sbxPolicyCall(p, c, method); ok {
			if !sbxSameObject(p, arg, name) {
				return "unknown"
			}
			hasCall = true
			continue
		}
		if sbxIsNilCheck(p, c) {
			continue
		}
		other = true
	}
	if !hasCall {
		return ""
	}
	if !hasFlag || other || ifs.Else != nil {
		return "unknown"
	}
	body := ifs.Body.List
	if sbxReturnsError(p, body) {
		return "guarded"
	}
	// `if _, isMacro := <ctx>.GetMacro(<name>); !isMacro { return …violation }`
	if len(body) == 1 {
		if inner, ok := body[0].(*ast.IfStmt); ok && inner.Else == nil && inner.Init != nil {
			if as, ok := inner.Init.(*ast.AssignStmt); ok && len(as.Lhs) == 2 && len(as.Rhs) == 1 {
				if c, ok := as.Rhs[0].(*ast.CallExpr); ok && len(c.Args) == 1 && sbxSameObject(p, c.Args[0], name) {
					if sel, ok := c.Fun.(*ast.SelectorExpr); ok && sel.Sel.Name == "GetMacro" {
						if s := p.Info.Selections[sel]; s != nil && sbxNamedOf(p, s.Recv()) == "RenderContext" {
							if ue, ok := inner.Cond.(*ast.UnaryExpr); ok && ue.Op == token.NOT && sbxSameObject(p, ue.X, as.Lhs[1]) {
								if sbxReturnsError(p, inner.Body.List) {
									return "guardedUnlessMacro"
								}
							}
						}
					}
				}
			}
		}
	}
	return "unknown"
}

// sbxOuterCheckOf recognises, at the top level of EvaluateExpression's body,
//
//	if <ctx>.sandboxed && <…> != nil { switch n := node.(type) { case *FunctionNode: if !…IsFunctionAllowed(n.name) { return … }
//	                                                              case *FilterNode:   if !…IsFilterAllowed(n.filter) { return … } } }
func sbxOuterCheckOf(p *Pkg, fd *ast.FuncDecl) bool {
	if fd == nil {
		return false
	}
	for _, st := range fd.Body.List {
		ifs, ok := st.(*ast.IfStmt)
		if !ok || ifs.Else != nil {
			continue
		}
		flag := false
		okCond := true
		for _, c := range sbxConjuncts(ifs.Cond) {
			if _, ok := sbxIsSandboxedField(p, c); ok {
				flag = true
			} else if !sbxIsNilCheck(p, c) {
				okCond = false
			}
		}
		if !flag || !okCond || len(ifs.Body.List) != 1 {
			continue
		}
		ts, ok := ifs.Body.List[0].(*ast.TypeSwitchStmt)
		if !ok {
			continue
		}
		seen := map[string]bool{}
		for _, cc := range ts.Body.List {
			clause := cc.(*ast.CaseClause)
			if len(clause.List) != 1 || len(clause.Body) != 1 {
				continue
			}
			tv, ok := p.Info.Types[clause.List[0]]
			if !ok {
				continue
			}
			node := sbxNamedOf(p, tv.Type)
			inner, ok := clause.Body[0].(*ast.IfStmt)
			if !ok || inner.Else != nil || !sbxReturnsError(p, inner.Body.List) {
				continue
			}
			switch node {
			case "FunctionNode":
				if arg, ok := sbxPolicyCall(p, inner.Cond, "IsFunctionAllowed"); ok && sbxFieldNamed(arg, "name") {
					seen[node] = true
				}
			case "FilterNode":
				if arg, ok := sbxPolicyCall(p, inner.Cond, "IsFilterAllowed"); ok && sbxFieldNamed(arg, "filter") {
					seen[node] = true
				}
			}
		}
		if seen["FunctionNode"] && seen["FilterNode"] {
			return true
		}
	}
	return false
}

func sbxFieldNamed(e ast.Expr, field string) bool {
	sel, ok := e.(*ast.SelectorExpr)
	return ok && sel.Sel.Name == field
}

// sbxCtxParamOf: the object of the function's parameter or receiver of type *RenderContext (nil if none).
func sbxCtxParamOf(p *Pkg, fd *ast.FuncDecl) types.Object {
	var fields []*ast.Field
	if fd.Recv != nil {
		fields = append(fields, fd.Recv.List...)
	}
	if fd.Type.Params != nil {
		fields = append(fields, fd.Type.Params.List...)
	}
	for _, f := range fields {
		for _, nm := range f.Names {
			if o := p.Info.Defs[nm]; o != nil && sbxNamedOf(p, o.Type()) == "RenderContext" {
				if _, isPtr := o.Type().(*types.Pointer); isPtr {
					return o
				}
			}
		}
	}
	return nil
}

// sbxCopiesFlag: stmt is `<v>.sandboxed = <src>.sandboxed`.
func sbxCopiesFlag(p *Pkg, st ast.Stmt, v, src types.Object) bool {
	as, ok := st.(*ast.AssignStmt)
	if !ok || as.Tok != token.ASSIGN || len(as.Lhs) != 1 || len(as.Rhs) != 1 {
		return false
	}
	lb, ok1 := sbxIsSandboxedField(p, as.Lhs[0])
	rb, ok2 := sbxIsSandboxedField(p, as.Rhs[0])
	if !ok1 || !ok2 {
		return false
	}
	return sbxObjOf(p, lb) == v && sbxObjOf(p, rb) == src && v != nil && src != nil
}

// sbxClassifyNewCtx: `call` is NewRenderContext(…) in fd.  The new context must be bound to a variable by the
// statement that contains the call, and a later statement OF THE SAME BLOCK must copy the flag.
func sbxClassifyNewCtx(p *Pkg, fd *ast.FuncDecl, call *ast.CallExpr) string {
	src := sbxCtxParamOf(p, fd)
	path := sbxPathTo(fd.Body, call)
	if src == nil {
		// no current context in the signature: a root construction, unless the body handles some other
		// *RenderContext value (e.g. one obtained by a type assertion), which we cannot relate
		var bound types.Object
		if len(path) >= 2 {
			if as, ok := path[len(path)-2].(*ast.AssignStmt); ok && len(as.Lhs) == 1 {
				bound = sbxObjOf(p, as.Lhs[0])
			}
		}
		other := false
		ast.Inspect(fd.Body, func(n ast.Node) bool {
			if id, ok := n.(*ast.Ident); ok {
				if o := sbxObjOf(p, id); o != nil && o != bound {
					if _, isVar := o.(*types.Var); isVar && sbxNamedOf(p, o.Type()) == "RenderContext" {
						other = true
					}
				}
			}
			return true
		})
		if other {
			return "unknown"
		}
		return "root"
	}
	// innermost statement containing the call and the block it sits in
	for i := len(path) - 2; i >= 0; i-- {
		blk, ok := path[i].(*ast.BlockStmt)
		if !ok {
			continue
		}
		as, ok := path[i+1].(*ast.AssignStmt)
		if !ok || len(as.Lhs) != 1 || len(as.Rhs) != 1 || as.Rhs[0] != ast.Expr(call) {
			return "unknown"
		}
		v := sbxObjOf(p, as.Lhs[0])
		if v == nil {
			return "unknown"
		}
		after := false
		for _, st := range blk.List {
			if st == ast.Stmt(as) {
				after = true
				continue
			}
			if after && sbxCopiesFlag(p, st, v, src) {
				return "propagates"
			}
		}
		return "dropped"
	}
	return "unknown"
}

// sbxCloneCopiesFlag: the body of RenderContext.Clone assigns <new>.sandboxed = <recv>.sandboxed at its top level.
func sbxCloneCopiesFlag(p *Pkg, fd *ast.FuncDecl) bool {
	if fd == nil || fd.Recv == nil || len(fd.Recv.List) != 1 || len(fd.Recv.List[0].Names) != 1 {
		return false
	}
	recv := p.Info.Defs[fd.Recv.List[0].Names[0]]
	for _, st := range fd.Body.List {
		as, ok := st.(*ast.AssignStmt)
		if !ok || len(as.Lhs) != 1 {
			continue
		}
		if lb, ok := sbxIsSandboxedField(p, as.Lhs[0]); ok {
			if v := sbxObjOf(p, lb); v != nil && v != recv && sbxCopiesFlag(p, st, v, recv) {
				return true
			}
		}
	}
	return false
}

func emitSandbox(p *Pkg) (string, error) {
	decls := p.FuncDecls()
	var calls []sbxCallSite
	var ctxs []sbxCtxSite
	cloneOK := sbxCloneCopiesFlag(p, decls["RenderContext.Clone"])
	for _, fd := range sbxSortedFuncs(p) {
		key := funcKey(fd)
		ordC := map[string]int{}
		ordX := map[string]int{}
		ast.Inspect(fd.Body, func(n ast.Node) bool {
			call, ok := n.(*ast.CallExpr)
			if !ok {
				return true
			}
			if tv, ok := p.Info.Types[call.Fun]; ok && !tv.IsType() {
				switch kind := sbxNamedOf(p, tv.Type); kind {
				case "FilterFunc", "FunctionFunc":
					if _, isPtr := tv.Type.(*types.Pointer); !isPtr {
						method := "IsFilterAllowed"
						if kind == "FunctionFunc" {
							method = "IsFunctionAllowed"
						}
						calls = append(calls, sbxCallSite{kind, key, ordC[kind], sbxClassifyGuard(p, fd, call, method), call.Pos()})
						ordC[kind]++
					}
				}
			}
			switch fun := call.Fun.(type) {
			case *ast.Ident:
				if f, ok := p.Info.Uses[fun].(*types.Func); ok && f.Pkg() == p.Types && f.Name() == "NewRenderContext" {
					ctxs = append(ctxs, sbxCtxSite{"new", key, ordX["new"], sbxClassifyNewCtx(p, fd, call), call.Pos()})
					ordX["new"]++
				}
			case *ast.SelectorExpr:
				if s := p.Info.Selections[fun]; s != nil && s.Kind() == types.MethodVal && s.Obj().Name() == "Clone" &&
					sbxNamedOf(p, s.Recv()) == "RenderContext" {
					prop := "dropped"
					if cloneOK {
						prop = "propagates"
					}
					if src := sbxCtxParamOf(p, fd); src == nil || sbxObjOf(p, fun.X) != src {
						prop = "unknown" // a clone of something other than the current context
					}
					ctxs = append(ctxs, sbxCtxSite{"clone", key, ordX["clone"], prop, call.Pos()})
					ordX["clone"]++
				}
			}
			return true
		})
	}
	sort.SliceStable(calls, func(i, j int) bool { return calls[i].pos < calls[j].pos })
	sort.SliceStable(ctxs, func(i, j int) bool { return ctxs[i].pos < ctxs[j].pos })
	outer := sbxOuterCheckOf(p, decls["RenderContext.EvaluateExpression"])

	var sb strings.Builder
	sb.WriteString(header("Sandbox", "callback invocation sites with their policy checks, context construction sites with flag propagation"))
	sb.WriteString("inductive Guard | guarded | guardedUnlessMacro | unguarded | unknown\nderiving DecidableEq, Repr\n\n")
	sb.WriteString("/-- a call whose callee has type FilterFunc / FunctionFunc: (type, enclosing function, ordinal, dominating policy check) -/\n")
	sb.WriteString("def callSites : List (String × String × Nat × Guard) := [\n")
	for i, c := range calls {
		sep := ","
		if i == len(calls)-1 {
			sep = ""
		}
		fmt.Fprintf(&sb, "  (%s, %s, %d, .%s)%s\n", leanStr(c.kind), leanStr(c.fn), c.ord, c.guard, sep)
	}
	sb.WriteString("]\n\n")
	sb.WriteString("inductive Prop_ | propagates | dropped | root | unknown\nderiving DecidableEq, Repr\n\n")
	sb.WriteString("/-- a render-context construction: (\"new\" = NewRenderContext(…) / \"clone\" = <ctx>.Clone(), enclosing function,\n    ordinal, whether the new context inherits `sandboxed`; `root` = the function has no current context) -/\n")
	sb.WriteString("def ctxSites : List (String × String × Nat × Prop_) := [\n")
	for i, c := range ctxs {
		sep := ","
		if i == len(ctxs)-1 {
			sep = ""
		}
		fmt.Fprintf(&sb, "  (%s, %s, %d, .%s)%s\n", leanStr(c.ctor), leanStr(c.fn), c.ord, c.prop, sep)
	}
	sb.WriteString("]\n\n")
	fmt.Fprintf(&sb, "/-- RenderContext.Clone assigns <new>.sandboxed = <receiver>.sandboxed -/\ndef cloneCopies : Bool := %s\n\n", leanBool(cloneOK))
	fmt.Fprintf(&sb, "/-- EvaluateExpression checks the policy for the outermost FunctionNode / FilterNode when sandboxed -/\ndef outerCheck : Bool := %s\n\n", leanBool(outer))
	sb.WriteString(`def sitesOf (kind : String) : List (String × String × Nat × Guard) := callSites.filter (·.1 == kind)
def newSitesIn (fn : String) : List (String × String × Nat × Prop_) := ctxSites.filter (fun s => s.1 == "new" && s.2.1 == fn)
def allPropagate (l : List (String × String × Nat × Prop_)) : Bool := !l.isEmpty && l.all (·.2.2.2 == .propagates)

/-- every FilterFunc invocation is dominated by the filter check -/
def chokeFilter : Bool := !(sitesOf "FilterFunc").isEmpty && (sitesOf "FilterFunc").all (·.2.2.2 == .guarded)
/-- every FunctionFunc invocation is dominated by the function check (which may exempt names that are macros) -/
def chokeFunc : Bool := !(sitesOf "FunctionFunc").isEmpty &&
  (sitesOf "FunctionFunc").all (fun s => s.2.2.2 == .guarded || s.2.2.2 == .guardedUnlessMacro)
/-- the function check exempts names that are macros of the context (the model's CallFunction does) -/
def funcCheckExemptsMacros : Bool := (sitesOf "FunctionFunc").all (·.2.2.2 == .guardedUnlessMacro)
def propIncludeFresh : Bool := allPropagate (newSitesIn "IncludeNode.Render")
def propExtends : Bool := allPropagate (newSitesIn "ExtendsNode.Render")
def propImport : Bool := allPropagate (newSitesIn "ImportNode.Render")
def propFrom : Bool := allPropagate (newSitesIn "FromImportNode.Render")
def propMacro : Bool := allPropagate (newSitesIn "MacroNode.CallMacro")
/-- the Clone() sites (include without only/sandboxed) inherit the flag -/
def cloneSitesPropagate : Bool := cloneCopies && (ctxSites.filter (·.1 == "clone")).all (·.2.2.2 == .propagates)
/-- construction sites the model has no derivation for: not one of the five functions, not a root, not a clone -/
def unmodelledSites : List (String × String × Nat × Prop_) :=
  ctxSites.filter fun s => s.1 == "new" && s.2.2.2 != .root &&
    !(["IncludeNode.Render", "ExtendsNode.Render", "ImportNode.Render", "FromImportNode.Render", "MacroNode.CallMacro"].contains s.2.1)

/-- (chokeFilter, chokeFunc, outerCheck, propIncludeFresh, propExtends, propImport, propFrom, propMacro) -/
def facts : Bool × Bool × Bool × Bool × Bool × Bool × Bool × Bool :=
  (chokeFilter, chokeFunc, outerCheck, propIncludeFresh, propExtends, propImport, propFrom, propMacro)
`)
	sb.WriteString(footer("Sandbox"))
	var err error
	if len(calls) == 0 {
		err = fmt.Errorf("no FilterFunc/FunctionFunc invocation found")
	}
	return sb.String(), err
}
