module verif/extract

go 1.24.1
