package main

import (
	"fmt"
	"go/ast"
	"go/constant"
	"go/token"
	"sort"
	"strings"
)

// Tokens: TOKEN_* constants, the tokenizer-selection threshold in Parser.Parse, operator and
// punctuation character sets of the expression lexer.
func init() { registerEmitter("Tokens", emitTokens) }

func emitTokens(p *Pkg) (string, error) {
	var sb strings.Builder
	sb.WriteString(header("Tokens", "token kind constants, tokenizer threshold, lexer character classes"))
	type kv struct {
		name string
		val  int64
	}
	var consts []kv
	scope := p.Types.Scope()
	for _, n := range scope.Names() {
		if !strings.HasPrefix(n, "TOKEN_") {
			continue
		}
		if c, ok := scope.Lookup(n).(interface{ Val() constant.Value }); ok {
			if v, ok := constant.Int64Val(c.Val()); ok {
				consts = append(consts, kv{n, v})
			}
		}
	}
	sort.Slice(consts, func(i, j int) bool { return consts[i].val < consts[j].val })
	sb.WriteString("def tokenConsts : List (String × Nat) := [\n")
	for i, c := range consts {
		sep := ","
		if i == len(consts)-1 {
			sep = ""
		}
		fmt.Fprintf(&sb, "  (%s, %d)%s\n", leanStr(c.name), c.val, sep)
	}
	sb.WriteString("]\n\n")

	// threshold: in Parser.Parse, `if len(p.source) > N` choosing TokenizeOptimized
	decls := p.FuncDecls()
	thr := int64(-1)
	optWhenGreater := false
	if fd := decls["Parser.Parse"]; fd != nil {
		ast.Inspect(fd, func(n ast.Node) bool {
			ifs, ok := n.(*ast.IfStmt)
			if !ok {
				return true
			}
			be, ok := ifs.Cond.(*ast.BinaryExpr)
			if !ok || be.Op != token.GTR {
				return true
			}
			if call, ok := be.X.(*ast.CallExpr); ok {
				if id, ok := call.Fun.(*ast.Ident); ok && id.Name == "len" {
					if tv, ok := p.Info.Types[be.Y]; ok && tv.Value != nil {
						if v, ok := constant.Int64Val(tv.Value); ok {
							if callsMethod(ifs.Body, "TokenizeOptimized") && ifs.Else != nil && callsMethod(ifs.Else, "TokenizeHtmlPreserving") {
								thr = v
								optWhenGreater = true
							}
						}
					}
				}
			}
			return true
		})
	}
	fmt.Fprintf(&sb, "/-- `Parser.Parse`: `if len(source) > threshold { TokenizeOptimized } else { TokenizeHtmlPreserving }`; -1 = not recognised -/\ndef tokenizerThreshold : Int := %d\ndef optimizedAboveThreshold : Bool := %s\n\n", thr, leanBool(optWhenGreater))

	// character classes: isOperator / isPunctuation use strings.ContainsRune("<set>", rune(c))
	for _, fn := range []string{"isOperator", "isPunctuation"} {
		set := ""
		if fd := decls[fn]; fd != nil {
			ast.Inspect(fd, func(n ast.Node) bool {
				if call, ok := n.(*ast.CallExpr); ok && len(call.Args) == 2 {
					if sel, ok := call.Fun.(*ast.SelectorExpr); ok && sel.Sel.Name == "ContainsRune" {
						if tv, ok := p.Info.Types[call.Args[0]]; ok && tv.Value != nil {
							set = constant.StringVal(tv.Value)
						}
					}
				}
				return true
			})
		}
		fmt.Fprintf(&sb, "def %sChars : String := %s\n", fn, leanStr(set))
	}
	sb.WriteString(footer("Tokens"))
	var err error
	if thr < 0 {
		err = fmt.Errorf("tokenizer threshold in Parser.Parse not recognised")
	}
	return sb.String(), err
}

func callsMethod(n ast.Node, name string) bool {
	found := false
	ast.Inspect(n, func(x ast.Node) bool {
		if call, ok := x.(*ast.CallExpr); ok {
			if sel, ok := call.Fun.(*ast.SelectorExpr); ok && sel.Sel.Name == name {
				found = true
			}
		}
		return true
	})
	return found
}
