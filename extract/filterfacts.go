package main

// Emitter `FilterFacts` (property C19): small facts about the builtin filters that
// `TwigModel/Filters.lean` transcribes.  The filter methods are found through the registration table
// (the method value registered under the filter's name in the map[string]FilterFunc literal), not by
// their Go names.
//
//	whiteSpaceRanges / spaceEncs   unicode.IsSpace of the toolchain the extractor (and the package) is built
//	                               with, evaluated for every code point: maximal ranges, and the UTF-8
//	                               encodings of the members in increasing order
//	numberFormatDefaults           filter "number_format": top-level `v := <constant>` statements: (variable, kind, value bytes)
//	numberFormatArgs               which argument index overrides which of them: `if len(args) > i { if x, … := …(args[i]); … { v = x } }`
//	roundHelper …                  filter "round": the statement `result, _ = strconv.ParseFloat(<helper>(num, precision, mode), 64)`,
//	                               the conjuncts of the `if` that guards it, the method-name switch (name ↦ mode byte)
//	sliceEndSites                  filter "slice": every `end = start + length` (start = the variable read from args[0]): is the next statement
//	                               `if end > n || end < start { end = n }` (upper clamp; overflow test)
//	rangeLimit                     function "range": the integer constant declared in its body and the
//	                               comparison that guards it
//	sameBody                       pairs of registered filter names whose methods have textually identical bodies
//	formatFloatSites               every strconv.FormatFloat call of the package: (function, ordinal, the value
//	                               is `<x> + 0`, format byte, precision, bit size)

import (
	"bytes"
	"fmt"
	"go/ast"
	"go/constant"
	"go/printer"
	"go/token"
	"go/types"
	"strings"
	"unicode"
	"unicode/utf8"
)

func init() { registerEmitter("FilterFacts", emitFilterFacts) }

// f19Registered: name ↦ declaration of the method registered under it in the map[string]<elem> literal of CoreExtension
func f19Registered(p *Pkg, elem string) map[string]*ast.FuncDecl {
	out := map[string]*ast.FuncDecl{}
	decls := map[types.Object]*ast.FuncDecl{}
	units := fuUnits(p)
	for _, u := range units {
		if u.fd != nil {
			decls[p.Info.Defs[u.fd.Name]] = u.fd
		}
	}
	for _, u := range units {
		if u.fd == nil || u.fd.Recv == nil {
			continue
		}
		ast.Inspect(u.root, func(n ast.Node) bool {
			cl, ok := n.(*ast.CompositeLit)
			if !ok {
				return true
			}
			tv, ok := p.Info.Types[cl]
			if !ok {
				return true
			}
			m, ok := tv.Type.Underlying().(*types.Map)
			if !ok || fuNamed(p, m.Elem()) != elem {
				return true
			}
			for _, el := range cl.Elts {
				kv, ok := el.(*ast.KeyValueExpr)
				if !ok {
					continue
				}
				name, ok := fuConstStr(p, kv.Key)
				if !ok {
					continue
				}
				if sel, ok := fuUnparen(kv.Value).(*ast.SelectorExpr); ok {
					if s := p.Info.Selections[sel]; s != nil && s.Kind() == types.MethodVal {
						if fd := decls[s.Obj()]; fd != nil {
							out[name] = fd
						}
					}
				}
			}
			return true
		})
	}
	return out
}

func f19Bytes(s string) string { return rgyBytes(s) }

func emitFilterFacts(p *Pkg) (string, error) {
	var unknown []string
	unk := func(format string, a ...interface{}) { unknown = append(unknown, fmt.Sprintf(format, a...)) }
	filters := f19Registered(p, "FilterFunc")
	functions := f19Registered(p, "FunctionFunc")
	var sb strings.Builder
	sb.WriteString(header("FilterFacts", "facts about builtin filters: White_Space, number_format defaults, round's decimal path, slice's overflow guard, range limit"))

	// ---- unicode.IsSpace ---------------------------------------------------------------------------
	var ranges, encs []string
	lo := rune(-1)
	for r := rune(0); r <= unicode.MaxRune+1; r++ {
		in := r <= unicode.MaxRune && unicode.IsSpace(r)
		if in {
			if lo < 0 {
				lo = r
			}
			var buf [4]byte
			n := utf8.EncodeRune(buf[:], r)
			encs = append(encs, f19Bytes(string(buf[:n])))
		} else if lo >= 0 {
			ranges = append(ranges, fmt.Sprintf("(%d, %d)", lo, r-1))
			lo = -1
		}
	}
	fuTable(&sb, "unicode.IsSpace of the toolchain: maximal ranges (lo, hi) of code points", "whiteSpaceRanges", "List (Nat × Nat)", ranges)
	fuTable(&sb, "UTF-8 encodings of those code points, in increasing order", "spaceEncs", "List (List Nat)", encs)

	// ---- number_format ------------------------------------------------------------------------------
	var nfRows, nfArgs []string
	if fd := filters["number_format"]; fd == nil {
		unk("filter number_format not registered")
	} else {
		vars := map[types.Object]string{}
		for _, st := range fd.Body.List {
			switch x := st.(type) {
			case *ast.AssignStmt:
				if x.Tok != token.DEFINE || len(x.Lhs) != 1 || len(x.Rhs) != 1 {
					continue
				}
				tv, ok := p.Info.Types[x.Rhs[0]]
				if !ok || tv.Value == nil {
					continue
				}
				o := fuObj(p, x.Lhs[0])
				if o == nil {
					continue
				}
				switch tv.Value.Kind() {
				case constant.String:
					vars[o] = o.Name()
					nfRows = append(nfRows, fmt.Sprintf("(%s, \"string\", %s)", leanStr(o.Name()), f19Bytes(constant.StringVal(tv.Value))))
				case constant.Int:
					vars[o] = o.Name()
					nfRows = append(nfRows, fmt.Sprintf("(%s, \"int\", %s)", leanStr(o.Name()), f19Bytes(tv.Value.ExactString())))
				}
			case *ast.IfStmt:
				// if len(args) > i { if x, … := …args[i]…; … { v = x } }
				be, ok := fuUnparen(x.Cond).(*ast.BinaryExpr)
				if !ok || be.Op != token.GTR {
					continue
				}
				lc, ok := fuUnparen(be.X).(*ast.CallExpr)
				if !ok || !fuIsBuiltin(p, lc, "len") {
					continue
				}
				idx, ok := fuConstInt(p, be.Y)
				if !ok {
					continue
				}
				ast.Inspect(x.Body, func(n ast.Node) bool {
					as, ok := n.(*ast.AssignStmt)
					if !ok || as.Tok != token.ASSIGN || len(as.Lhs) != 1 {
						return true
					}
					if name, ok := vars[fuObj(p, as.Lhs[0])]; ok {
						nfArgs = append(nfArgs, fmt.Sprintf("(%d, %s)", idx, leanStr(name)))
					}
					return true
				})
			}
		}
	}
	fuTable(&sb, "number_format: constants assigned at the top of the method: (variable, kind, bytes of the value; an int in decimal)", "numberFormatDefaults", "List (String × String × List Nat)", nfRows)
	fuTable(&sb, "number_format: (argument index, variable it overrides)", "numberFormatArgs", "List (Nat × String)", nfArgs)

	// ---- round ----------------------------------------------------------------------------------------
	helper := ""
	helperArgsOK := false
	var guard, modes []string
	defaultMode := int64(-1)
	if fd := filters["round"]; fd == nil {
		unk("filter round not registered")
	} else {
		fuWalk(fd.Body, func(n ast.Node, stack []ast.Node) bool {
			switch x := n.(type) {
			case *ast.AssignStmt:
				if len(x.Rhs) != 1 {
					return true
				}
				// mode := byte('c')
				if x.Tok == token.DEFINE && len(x.Lhs) == 1 && len(stack) == 1 {
					if tv, ok := p.Info.Types[x.Rhs[0]]; ok && tv.Value != nil && tv.Value.Kind() == constant.Int {
						if b, ok := tv.Type.Underlying().(*types.Basic); ok && b.Kind() == types.Uint8 {
							defaultMode, _ = constant.Int64Val(tv.Value)
						}
					}
				}
				call, ok := fuUnparen(x.Rhs[0]).(*ast.CallExpr)
				if !ok || fuCalleeQual(p, call) != "strconv.ParseFloat" || len(call.Args) != 2 {
					return true
				}
				inner, ok := fuUnparen(call.Args[0]).(*ast.CallExpr)
				if !ok {
					return true
				}
				if fn := fuCallee(p, inner); fn != nil && fn.Pkg() == p.Types {
					helper = fn.Name()
					helperArgsOK = len(inner.Args) == 3
				}
				// the guarding if
				if i := fuEnclosing(stack, func(y ast.Node) bool { _, ok := y.(*ast.IfStmt); return ok }); i >= 0 {
					for _, cj := range sbxConjuncts(stack[i].(*ast.IfStmt).Cond) {
						guard = append(guard, leanStr(types.ExprString(cj)))
					}
				}
			case *ast.SwitchStmt:
				// switch method { case "ceil", "ceiling": mode = 'u' … }
				if x.Tag == nil || len(stack) != 1 {
					return true
				}
				if tv, ok := p.Info.Types[x.Tag]; !ok || tv.Type.Underlying() != types.Typ[types.String] {
					return true
				}
				for _, cs := range x.Body.List {
					cc := cs.(*ast.CaseClause)
					if len(cc.Body) != 1 {
						continue
					}
					as, ok := cc.Body[0].(*ast.AssignStmt)
					if !ok || len(as.Rhs) != 1 {
						continue
					}
					v, ok := fuConstInt(p, as.Rhs[0])
					if !ok {
						continue
					}
					for _, e := range cc.List {
						if s, ok := fuConstStr(p, e); ok {
							modes = append(modes, fmt.Sprintf("(%s, %d)", f19Bytes(s), v))
						}
					}
				}
			}
			return true
		})
	}
	fmt.Fprintf(&sb, "/-- round: `result, _ = strconv.ParseFloat(<helper>(num, precision, mode), 64)`; \"\" = no such statement -/\ndef roundHelper : String := %s\ndef roundHelperThreeArgs : Bool := %s\n", leanStr(helper), leanBool(helperArgsOK))
	fuTable(&sb, "round: conjuncts of the `if` guarding that statement (source text)", "roundHelperGuard", "List String", guard)
	fuTable(&sb, "round: the method-name switch: (bytes of the name, mode byte)", "roundModes", "List (List Nat × Nat)", modes)
	fmt.Fprintf(&sb, "/-- round: the mode before the switch (0 = not recognised) -/\ndef roundDefaultMode : Nat := %d\n\n", max64(defaultMode, 0))

	// ---- slice ------------------------------------------------------------------------------------------
	var sites []string
	if fd := filters["slice"]; fd == nil {
		unk("filter slice not registered")
	} else {
		ord := 0
		// the start index: `start, err := <conv>(args[0])`
		var startObj types.Object
		for _, st := range fd.Body.List {
			if as, ok := st.(*ast.AssignStmt); ok && as.Tok == token.DEFINE && len(as.Rhs) == 1 && len(as.Lhs) >= 1 && startObj == nil {
				if call, ok := fuUnparen(as.Rhs[0]).(*ast.CallExpr); ok && len(call.Args) == 1 {
					if ix, ok := fuUnparen(call.Args[0]).(*ast.IndexExpr); ok {
						if k, ok := fuConstInt(p, ix.Index); ok && k == 0 {
							startObj = fuObj(p, as.Lhs[0])
						}
					}
				}
			}
		}
		if startObj == nil {
			unk("slice: `start, err := <conv>(args[0])` not found")
		}
		fuWalk(fd.Body, func(n ast.Node, stack []ast.Node) bool {
			as, ok := n.(*ast.AssignStmt)
			if !ok || as.Tok != token.ASSIGN || len(as.Lhs) != 1 || len(as.Rhs) != 1 || len(stack) == 0 {
				return true
			}
			sum, ok := fuUnparen(as.Rhs[0]).(*ast.BinaryExpr)
			if !ok || sum.Op != token.ADD {
				return true
			}
			endObj, a, b := fuObj(p, as.Lhs[0]), fuObj(p, sum.X), fuObj(p, sum.Y)
			if endObj == nil || a == nil || b == nil {
				return true
			}
			// operands are int variables, the target is an int variable distinct from both
			isInt := func(o types.Object) bool {
				bt, ok := o.Type().Underlying().(*types.Basic)
				return ok && bt.Kind() == types.Int
			}
			if !isInt(endObj) || !isInt(a) || !isInt(b) || endObj == a || endObj == b || a != startObj {
				return true
			}
			upper, overflow := false, false
			if blk, ok := stack[len(stack)-1].(*ast.BlockStmt); ok {
				for i, st := range blk.List {
					if st != ast.Stmt(as) || i+1 >= len(blk.List) {
						continue
					}
					ifs, ok := blk.List[i+1].(*ast.IfStmt)
					if !ok || len(ifs.Body.List) != 1 {
						continue
					}
					// body: end = n
					var limit types.Object
					if as2, ok := ifs.Body.List[0].(*ast.AssignStmt); ok && len(as2.Lhs) == 1 && fuObj(p, as2.Lhs[0]) == endObj {
						limit = fuObj(p, as2.Rhs[0])
					}
					for _, dj := range f19Disjuncts(ifs.Cond) {
						be, ok := fuUnparen(dj).(*ast.BinaryExpr)
						if !ok || fuObj(p, be.X) != endObj {
							continue
						}
						if be.Op == token.GTR && limit != nil && fuObj(p, be.Y) == limit {
							upper = true
						}
						if be.Op == token.LSS && fuObj(p, be.Y) == a {
							overflow = true
						}
					}
				}
			}
			sites = append(sites, fmt.Sprintf("(%s, %d, %s, %s)", leanStr(funcKey(fd)), ord, leanBool(upper), leanBool(overflow)))
			ord++
			return true
		})
	}
	fuTable(&sb, "slice: every `end = start + length` (int variables): (function, ordinal, next statement clamps `end > n`, … and tests `end < start`)", "sliceEndSites", "List (String × Nat × Bool × Bool)", sites)

	// ---- range limit ----------------------------------------------------------------------------------
	limitName, limitOp := "", ""
	limit := int64(0)
	if fd := functions["range"]; fd == nil {
		unk("function range not registered")
	} else {
		var lobj types.Object
		ast.Inspect(fd.Body, func(n ast.Node) bool {
			switch x := n.(type) {
			case *ast.DeclStmt:
				if gd, ok := x.Decl.(*ast.GenDecl); ok && gd.Tok == token.CONST {
					for _, s := range gd.Specs {
						vs := s.(*ast.ValueSpec)
						for _, nm := range vs.Names {
							if c, ok := p.Info.Defs[nm].(*types.Const); ok && c.Val().Kind() == constant.Int {
								if v, ok := constant.Int64Val(c.Val()); ok && lobj == nil {
									lobj, limitName, limit = c, nm.Name, v
								}
							}
						}
					}
				}
			case *ast.IfStmt:
				if be, ok := fuUnparen(x.Cond).(*ast.BinaryExpr); ok && lobj != nil && fuObj(p, be.Y) == lobj && limitOp == "" {
					if sbxReturnsError(p, x.Body.List) {
						limitOp = be.Op.String()
					}
				}
			}
			return true
		})
	}
	fmt.Fprintf(&sb, "/-- range: the integer constant declared in the function body, its value (0 = none), and the operator of\n    `if <count> <op> <constant> { return … error }` -/\ndef rangeLimitName : String := %s\ndef rangeLimit : Nat := %d\ndef rangeLimitOp : String := %s\n\n", leanStr(limitName), limit, leanStr(limitOp))

	// ---- identical bodies --------------------------------------------------------------------------------
	bodies := map[string]string{}
	for _, name := range fuSortedKeys(filters) {
		var buf bytes.Buffer
		printer.Fprint(&buf, token.NewFileSet(), filters[name].Body)
		bodies[name] = buf.String()
	}
	var same []string
	names := fuSortedKeys(filters)
	for i, a := range names {
		for _, b := range names[i+1:] {
			if filters[a] != filters[b] && bodies[a] == bodies[b] {
				same = append(same, fmt.Sprintf("(%s, %s)", leanStr(a), leanStr(b)))
			}
		}
	}
	fuTable(&sb, "registered filter names with DIFFERENT methods whose bodies are textually identical", "sameBody", "List (String × String)", same)

	// ---- FormatFloat sites -------------------------------------------------------------------------------
	var ff []string
	for _, u := range fuUnits(p) {
		ord := 0
		ast.Inspect(u.root, func(n ast.Node) bool {
			call, ok := n.(*ast.CallExpr)
			if !ok || fuCalleeQual(p, call) != "strconv.FormatFloat" || len(call.Args) != 4 {
				return true
			}
			plusZero := false
			if be, ok := fuUnparen(call.Args[0]).(*ast.BinaryExpr); ok && be.Op == token.ADD {
				if tv, ok := p.Info.Types[be.Y]; ok && tv.Value != nil && constant.Sign(tv.Value) == 0 {
					plusZero = true
				}
			}
			fb, ok1 := fuConstInt(p, call.Args[1])
			pr, ok2 := fuConstInt(p, call.Args[2])
			bs, ok3 := fuConstInt(p, call.Args[3])
			if !ok1 || !ok2 || !ok3 {
				fb, pr, bs = 0, 0, 0
			}
			ff = append(ff, fmt.Sprintf("(%s, %d, %s, %d, %d, %d)", leanStr(u.name), ord, leanBool(plusZero), fb, pr, bs))
			ord++
			return true
		})
	}
	fuTable(&sb, "strconv.FormatFloat calls: (function, ordinal, value is `x + 0`, format byte, precision (0 = non-constant arguments), bit size)", "formatFloatSites", "List (String × Nat × Bool × Nat × Int × Nat)", ff)

	var rows []string
	for _, u := range unknown {
		rows = append(rows, leanStr(u))
	}
	fuTable(&sb, "constructs that fitted no schema (must be empty)", "unknown", "List String", rows)
	sb.WriteString(footer("FilterFacts"))
	var err error
	if len(unknown) > 0 {
		err = fmt.Errorf("%d construct(s) not recognised: %s", len(unknown), strings.Join(unknown, "; "))
	}
	return sb.String(), err
}

func f19Disjuncts(e ast.Expr) []ast.Expr {
	e = fuUnparen(e)
	if be, ok := e.(*ast.BinaryExpr); ok && be.Op == token.LOR {
		return append(f19Disjuncts(be.X), f19Disjuncts(be.Y)...)
	}
	return []ast.Expr{e}
}
