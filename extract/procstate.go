package main

// Emitter `ProcState` (properties C01 and C03): the process-wide state of the package.
//
// A render is a function of the engine, the templates and the context only if nothing else survives from one
// render to the next. What survives across engines lives in package-level variables. For every package-level
// variable this emitter lists its type and every place where it is used in a way that can change it (or what it
// refers to):
//
//	assign     it (or an element, field, or pointee reached from it) is the left side of an assignment or of ++/--
//	addr       its address (or the address of a part) is taken
//	ptrmethod  a method with a pointer receiver is called on it or on a part of it (Pool.Get, Mutex.Lock,
//	           atomic.Int32.Store, sync.Map.Store, …)
//	builtin    it is the first argument of delete / clear / copy, or of append
//	escape     a variable of reference type (map, slice, pointer, chan, func, interface) is used as a value (passed,
//	           returned, stored), so that the holder may write through it
//
// The proof module states the closed list of variables that have such a use, with the model that covers each.

import (
	"fmt"
	"go/ast"
	"go/token"
	"go/types"
	"sort"
	"strings"
)

func init() { registerEmitter("ProcState", emitProcState) }

func emitProcState(p *Pkg) (string, error) {
	scope := p.Types.Scope()
	vars := map[types.Object]bool{}
	for _, n := range scope.Names() {
		if v, ok := scope.Lookup(n).(*types.Var); ok {
			vars[v] = true
		}
	}
	uses := map[string]map[string]bool{}
	add := func(o types.Object, unit, how string) {
		if uses[o.Name()] == nil {
			uses[o.Name()] = map[string]bool{}
		}
		uses[o.Name()][unit+"\x00"+how] = true
	}
	isRef := func(t types.Type) bool {
		switch t.Underlying().(type) {
		case *types.Map, *types.Slice, *types.Pointer, *types.Chan, *types.Signature, *types.Interface:
			return true
		}
		return false
	}
	for _, u := range fuUnits(p) {
		own := ""
		if strings.HasPrefix(u.name, "var ") {
			own = strings.TrimPrefix(u.name, "var ")
		}
		fuWalk(u.root, func(n ast.Node, stack []ast.Node) bool {
			switch x := n.(type) {
			case *ast.AssignStmt:
				for _, l := range x.Lhs {
					if o := fuRootObj(p, l); o != nil && vars[o] {
						add(o, u.name, "assign")
					}
				}
			case *ast.IncDecStmt:
				if o := fuRootObj(p, x.X); o != nil && vars[o] {
					add(o, u.name, "assign")
				}
			case *ast.UnaryExpr:
				if x.Op == token.AND {
					if o := fuRootObj(p, x.X); o != nil && vars[o] {
						add(o, u.name, "addr")
					}
				}
			case *ast.CallExpr:
				if sel, ok := fuUnparen(x.Fun).(*ast.SelectorExpr); ok {
					if s := p.Info.Selections[sel]; s != nil && s.Kind() == types.MethodVal {
						if fn, ok := s.Obj().(*types.Func); ok {
							if recv := fn.Type().(*types.Signature).Recv(); recv != nil {
								if _, ptr := recv.Type().(*types.Pointer); ptr {
									if o := fuRootObj(p, sel.X); o != nil && vars[o] {
										add(o, u.name, "ptrmethod "+fn.Name())
									}
								}
							}
						}
					}
				}
				for _, b := range []string{"delete", "clear", "copy", "append"} {
					if fuIsBuiltin(p, x, b) && len(x.Args) > 0 {
						if o := fuRootObj(p, x.Args[0]); o != nil && vars[o] {
							add(o, u.name, "builtin "+b)
						}
					}
				}
			case *ast.Ident:
				o := p.Info.Uses[x]
				if o == nil || !vars[o] || !isRef(o.Type()) || o.Name() == own {
					return true
				}
				// a bare use as a value: the parent is not a selector/index/slice/star/range/len-like read of it
				if len(stack) == 0 {
					return true
				}
				switch par := stack[len(stack)-1].(type) {
				case *ast.SelectorExpr, *ast.IndexExpr, *ast.SliceExpr, *ast.StarExpr, *ast.RangeStmt:
					return true
				case *ast.BinaryExpr:
					return true // comparison with nil / errors compared by identity
				case *ast.CallExpr:
					if fuUnparen(par.Fun) == ast.Expr(x) {
						return true // calling a func variable
					}
					if fuIsBuiltin(p, par, "len") || fuIsBuiltin(p, par, "cap") {
						return true
					}
					if q := fuCalleeQual(p, par); q == "errors.Is" || q == "errors.As" || q == "fmt.Errorf" {
						return true
					}
				case *ast.AssignStmt:
					for _, l := range par.Lhs {
						if fuUnparen(l) == ast.Expr(x) {
							return true // counted as assign
						}
					}
				}
				if types.Identical(o.Type(), types.Universe.Lookup("error").Type()) {
					return true // sentinel errors are handed around by identity and have no exported state
				}
				add(o, u.name, "escape")
			}
			return true
		})
	}
	var sb strings.Builder
	sb.WriteString(header("ProcState", "package-level variables and every use that can change them (properties C01, C03)"))
	var rows []string
	names := scope.Names()
	sort.Strings(names)
	for _, n := range names {
		v, ok := scope.Lookup(n).(*types.Var)
		if !ok {
			continue
		}
		ty := types.TypeString(v.Type(), func(q *types.Package) string {
			if q == p.Types {
				return ""
			}
			return q.Name()
		})
		if len(ty) > 90 {
			ty = ty[:90] + "…"
		}
		var us []string
		for _, k := range fuSortedKeys(uses[n]) {
			parts := strings.SplitN(k, "\x00", 2)
			us = append(us, fmt.Sprintf("(%s, %s)", leanStr(parts[0]), leanStr(parts[1])))
		}
		rows = append(rows, fmt.Sprintf("(%s, %s, [%s])", leanStr(n), leanStr(ty), strings.Join(us, ", ")))
	}
	fuTable(&sb, "every package-level variable: (name, type, uses that can change it: (function, how))", "vars", "List (String × String × List (String × String))", rows)
	sb.WriteString("\n/-- the variables that carry state from one call into the package to the next -/\ndef stateful : List String := (vars.filter fun r => !r.2.2.isEmpty).map (·.1)\n")
	sb.WriteString(footer("ProcState"))
	return sb.String(), nil
}
