package main

import (
	"fmt"
	"go/ast"
	"go/constant"
	"go/token"
	"go/types"
	"sort"
	"strings"
)

// Prec: the operator-precedence facts of parser.go.
//
//   - PREC_* constants (name, value);
//   - getOperatorPrecedence: a `switch <string parameter>` whose clauses list constant strings and
//     whose bodies are a single `return <integer constant>`: one row per (operator string) with the
//     clause ordinal and the returned precedence; the default clause gives `defaultPrec`;
//   - peekBinaryOperator: the `switch token.Value` over NAME tokens: one row per way to return
//     (operator string, width, true): first word, second word ("" = none required), operator string,
//     width; plus the pass-through of OPERATOR tokens;
//   - parseBinaryPrec / parseExpression: the three places where the climbing uses the table: the stop
//     test (`precedence == PREC_LOWEST || precedence < minPrec`), the recursive call for the right
//     operand (`parseBinaryPrec(precedence + K)`) and the entry level (`parseBinaryPrec(PREC_OR)`).
//
// Everything is recognised through go/types (constant values, types of the switch tag, the object a
// name resolves to); a clause / statement that fits no schema is reported in `unknown` (and as a row
// with precedence 999 so that the table comparison fails as well).
func init() { registerEmitter("Prec", emitPrec) }

type precRow struct {
	fn   string
	ord  int
	op   string
	prec int64
}

type peekRow struct {
	fn     string
	ord    int
	w1, w2 string
	op     string
	width  int64
}

func emitPrec(p *Pkg) (string, error) {
	var sb strings.Builder
	sb.WriteString(header("Prec", "operator precedence table (getOperatorPrecedence), PREC_* constants, operator words of peekBinaryOperator, use of the table in parseBinaryPrec"))
	var unknown []string
	decls := p.FuncDecls()

	// ---- PREC_* constants ----
	type kv struct {
		name string
		val  int64
	}
	var consts []kv
	scope := p.Types.Scope()
	for _, n := range scope.Names() {
		if !strings.HasPrefix(n, "PREC_") {
			continue
		}
		if c, ok := scope.Lookup(n).(*types.Const); ok {
			if v, ok := constant.Int64Val(c.Val()); ok {
				consts = append(consts, kv{n, v})
			}
		}
	}
	sort.Slice(consts, func(i, j int) bool {
		if consts[i].val != consts[j].val {
			return consts[i].val < consts[j].val
		}
		return consts[i].name < consts[j].name
	})
	sb.WriteString("/-- the `PREC_*` constants of parser.go -/\ndef precConsts : List (String × Nat) := [\n")
	for i, c := range consts {
		fmt.Fprintf(&sb, "  (%s, %d)%s\n", leanStr(c.name), c.val, sepOf(i, len(consts)))
	}
	sb.WriteString("]\n\n")

	constInt := func(e ast.Expr) (int64, bool) {
		if tv, ok := p.Info.Types[e]; ok && tv.Value != nil && tv.Value.Kind() == constant.Int {
			return constant.Int64Val(tv.Value)
		}
		return 0, false
	}
	constStr := func(e ast.Expr) (string, bool) {
		if tv, ok := p.Info.Types[e]; ok && tv.Value != nil && tv.Value.Kind() == constant.String {
			return constant.StringVal(tv.Value), true
		}
		return "", false
	}
	constBool := func(e ast.Expr) (bool, bool) {
		if tv, ok := p.Info.Types[e]; ok && tv.Value != nil && tv.Value.Kind() == constant.Bool {
			return constant.BoolVal(tv.Value), true
		}
		return false, false
	}
	isStringTyped := func(e ast.Expr) bool {
		if tv, ok := p.Info.Types[e]; ok {
			if bt, ok := tv.Type.Underlying().(*types.Basic); ok {
				return bt.Info()&types.IsString != 0
			}
		}
		return false
	}

	// ---- getOperatorPrecedence ----
	var rows []precRow
	defaultPrec := int64(-1)
	const fnPrec = "getOperatorPrecedence"
	if fd := decls[fnPrec]; fd == nil || fd.Body == nil {
		unknown = append(unknown, fnPrec+": function not found")
	} else {
		// the single string parameter
		var param types.Object
		if fd.Type.Params != nil && len(fd.Type.Params.List) == 1 && len(fd.Type.Params.List[0].Names) == 1 {
			param = p.Info.Defs[fd.Type.Params.List[0].Names[0]]
		}
		if param == nil || !isStringObj(param) {
			unknown = append(unknown, fnPrec+": expected exactly one string parameter")
		}
		var sw *ast.SwitchStmt
		if len(fd.Body.List) == 1 {
			sw, _ = fd.Body.List[0].(*ast.SwitchStmt)
		}
		if sw == nil || sw.Init != nil {
			unknown = append(unknown, fnPrec+": body is not a single switch statement")
		} else {
			if id, ok := sw.Tag.(*ast.Ident); !ok || param == nil || p.Info.Uses[id] != param {
				unknown = append(unknown, fnPrec+": switch tag is not the parameter")
			}
			for ord, st := range sw.Body.List {
				cc := st.(*ast.CaseClause)
				prec := int64(999)
				okBody := false
				if len(cc.Body) == 1 {
					if rs, ok := cc.Body[0].(*ast.ReturnStmt); ok && len(rs.Results) == 1 {
						if v, ok := constInt(rs.Results[0]); ok && v >= 0 {
							prec, okBody = v, true
						}
					}
				}
				if !okBody {
					unknown = append(unknown, fmt.Sprintf("%s: clause %d: body is not `return <constant>`", fnPrec, ord))
				}
				if cc.List == nil { // default
					if okBody {
						defaultPrec = prec
					}
					continue
				}
				for _, e := range cc.List {
					s, ok := constStr(e)
					if !ok {
						unknown = append(unknown, fmt.Sprintf("%s: clause %d: case expression is not a constant string", fnPrec, ord))
						s = "?"
					}
					rows = append(rows, precRow{fnPrec, ord, s, prec})
				}
			}
		}
	}
	sb.WriteString("structure Row where\n  fn : String\n  ord : Nat\n  op : String\n  prec : Nat\nderiving DecidableEq, Repr\n\n")
	sb.WriteString("/-- one row per case string of the switch in `getOperatorPrecedence` (fn = enclosing function, ord = clause ordinal) -/\ndef rows : List Row := [\n")
	for i, r := range rows {
		fmt.Fprintf(&sb, "  ⟨%s, %d, %s, %d⟩%s\n", leanStr(r.fn), r.ord, leanStr(r.op), r.prec, sepOf(i, len(rows)))
	}
	sb.WriteString("]\n\n")
	sb.WriteString("/-- (operator string, precedence) -/\ndef table : List (String × Nat) := rows.map fun r => (r.op, r.prec)\n\n")
	fmt.Fprintf(&sb, "/-- the `default:` clause (PREC_LOWEST: not a binary operator); -1 = not recognised -/\ndef defaultPrec : Int := %d\n\n", defaultPrec)
	if defaultPrec < 0 {
		unknown = append(unknown, fnPrec+": no recognisable default clause")
	}

	// ---- peekBinaryOperator ----
	var peeks []peekRow
	opPassWidth := int64(-1) // `if token.Type == TOKEN_OPERATOR { return token.Value, 1, true }`
	const fnPeek = "Parser.peekBinaryOperator"
	if fd := decls[fnPeek]; fd == nil || fd.Body == nil {
		unknown = append(unknown, fnPeek+": function not found")
	} else {
		// isTokVal: a selector `x.Value` of string type on a value of the named type Token
		isTokVal := func(e ast.Expr) bool {
			sel, ok := e.(*ast.SelectorExpr)
			if !ok || !isStringTyped(e) {
				return false
			}
			s := p.Info.Selections[sel]
			if s == nil || s.Kind() != types.FieldVal {
				return false
			}
			return namedTypeName(s.Recv()) == "Token" && s.Obj().Name() == "Value"
		}
		// ret: `return <string constant | token.Value>, <int constant>, true`
		ret := func(st ast.Stmt) (op string, self bool, width int64, ok bool) {
			rs, isRet := st.(*ast.ReturnStmt)
			if !isRet || len(rs.Results) != 3 {
				return
			}
			t, okT := constBool(rs.Results[2])
			w, okW := constInt(rs.Results[1])
			if !okT || !t || !okW {
				return
			}
			if s, isC := constStr(rs.Results[0]); isC {
				return s, false, w, true
			}
			if isTokVal(rs.Results[0]) {
				return "", true, w, true
			}
			return
		}
		var sw *ast.SwitchStmt
		for _, st := range fd.Body.List {
			switch s := st.(type) {
			case *ast.SwitchStmt:
				if s.Tag != nil && isTokVal(s.Tag) {
					if sw != nil {
						unknown = append(unknown, fnPeek+": more than one switch on token.Value")
					}
					sw = s
				}
			case *ast.IfStmt:
				// if token.Type == TOKEN_OPERATOR { return token.Value, N, true }
				if be, ok := s.Cond.(*ast.BinaryExpr); ok && be.Op == token.EQL && s.Else == nil && len(s.Body.List) == 1 {
					if v, ok := constInt(be.Y); ok {
						if c, ok := scope.Lookup("TOKEN_OPERATOR").(*types.Const); ok {
							if cv, ok := constant.Int64Val(c.Val()); ok && cv == v && isTokenTypeField(p, be.X) {
								if _, self, w, ok := ret(s.Body.List[0]); ok && self {
									opPassWidth = w
								}
							}
						}
					}
				}
			}
		}
		if sw == nil {
			unknown = append(unknown, fnPeek+": no switch on token.Value")
		} else {
			for ord, st := range sw.Body.List {
				cc := st.(*ast.CaseClause)
				if cc.List == nil {
					unknown = append(unknown, fmt.Sprintf("%s: clause %d: unexpected default clause", fnPeek, ord))
					continue
				}
				var words []string
				for _, e := range cc.List {
					s, ok := constStr(e)
					if !ok {
						unknown = append(unknown, fmt.Sprintf("%s: clause %d: case expression is not a constant string", fnPeek, ord))
						s = "?"
					}
					words = append(words, s)
				}
				for si, bst := range cc.Body {
					// `return …` (must be last) or `if next == "w" { return … }`
					if op, self, w, ok := ret(bst); ok {
						if si != len(cc.Body)-1 {
							unknown = append(unknown, fmt.Sprintf("%s: clause %d: statement after return", fnPeek, ord))
						}
						for _, w1 := range words {
							o := op
							if self {
								o = w1
							}
							peeks = append(peeks, peekRow{fnPeek, ord, w1, "", o, w})
						}
						continue
					}
					okIf := false
					if ifs, ok := bst.(*ast.IfStmt); ok && ifs.Init == nil && ifs.Else == nil && len(ifs.Body.List) == 1 {
						if be, ok := ifs.Cond.(*ast.BinaryExpr); ok && be.Op == token.EQL {
							if id, ok := be.X.(*ast.Ident); ok && isStringTyped(be.X) && isLocalVar(p, id, fd) {
								if w2, ok := constStr(be.Y); ok {
									if op, self, w, ok := ret(ifs.Body.List[0]); ok && !self {
										okIf = true
										for _, w1 := range words {
											peeks = append(peeks, peekRow{fnPeek, ord, w1, w2, op, w})
										}
									}
								}
							}
						}
					}
					if !okIf {
						unknown = append(unknown, fmt.Sprintf("%s: clause %d: statement %d fits no schema", fnPeek, ord, si))
					}
				}
			}
		}
	}
	sb.WriteString("structure PeekRow where\n  fn : String\n  ord : Nat\n  word1 : String\n  word2 : String\n  op : String\n  width : Nat\nderiving DecidableEq, Repr\n\n")
	sb.WriteString("/-- `peekBinaryOperator` on a NAME token `word1`: when the next NAME token is `word2` (\"\" = no condition)\n    it returns `(op, width, true)`; rows of one clause are tried in order -/\ndef peekRows : List PeekRow := [\n")
	for i, r := range peeks {
		fmt.Fprintf(&sb, "  ⟨%s, %d, %s, %s, %s, %d⟩%s\n", leanStr(r.fn), r.ord, leanStr(r.w1), leanStr(r.w2), leanStr(r.op), r.width, sepOf(i, len(peeks)))
	}
	sb.WriteString("]\n\n")
	sb.WriteString("/-- (first word, second word, operator string, width) -/\ndef peekWords : List (String × String × String × Nat) := peekRows.map fun r => (r.word1, r.word2, r.op, r.width)\n\n")
	fmt.Fprintf(&sb, "/-- `if token.Type == TOKEN_OPERATOR { return token.Value, W, true }`: W, or -1 if not recognised -/\ndef operatorTokenWidth : Int := %d\n\n", opPassWidth)
	if opPassWidth < 0 {
		unknown = append(unknown, fnPeek+": OPERATOR-token pass-through not recognised")
	}

	// ---- use of the table in parseBinaryPrec / parseExpression ----
	stopIsLowestOrLess := false // `precedence == PREC_LOWEST || precedence < minPrec` followed by break
	rhsBump := int64(-1)        // parseBinaryPrec(precedence + K)
	entryPrec := int64(-1)      // parseExpression: parseBinaryPrec(<constant>)
	usesTable := false          // precedence := getOperatorPrecedence(operator)
	const fnClimb = "Parser.parseBinaryPrec"
	if fd := decls[fnClimb]; fd == nil || fd.Body == nil {
		unknown = append(unknown, fnClimb+": function not found")
	} else {
		var minPrec types.Object
		if fd.Type.Params != nil && len(fd.Type.Params.List) == 1 && len(fd.Type.Params.List[0].Names) == 1 {
			minPrec = p.Info.Defs[fd.Type.Params.List[0].Names[0]]
		}
		var precVar types.Object
		self := p.Info.Defs[fd.Name]
		tableFn := scope.Lookup(fnPrec)
		ast.Inspect(fd.Body, func(n ast.Node) bool {
			switch s := n.(type) {
			case *ast.AssignStmt:
				if s.Tok == token.DEFINE && len(s.Lhs) == 1 && len(s.Rhs) == 1 {
					if call, ok := s.Rhs[0].(*ast.CallExpr); ok {
						if id, ok := call.Fun.(*ast.Ident); ok && tableFn != nil && p.Info.Uses[id] == tableFn {
							if l, ok := s.Lhs[0].(*ast.Ident); ok {
								precVar = p.Info.Defs[l]
								usesTable = true
							}
						}
					}
				}
			case *ast.IfStmt:
				if or, ok := s.Cond.(*ast.BinaryExpr); ok && or.Op == token.LOR && precVar != nil && minPrec != nil {
					l, lok := or.X.(*ast.BinaryExpr)
					r, rok := or.Y.(*ast.BinaryExpr)
					if lok && rok && l.Op == token.EQL && r.Op == token.LSS && usesObj(p, l.X, precVar) && usesObj(p, r.X, precVar) && usesObj(p, r.Y, minPrec) {
						if v, ok := constInt(l.Y); ok && v == defaultPrec && len(s.Body.List) == 1 && s.Else == nil {
							if br, ok := s.Body.List[0].(*ast.BranchStmt); ok && br.Tok == token.BREAK && br.Label == nil {
								stopIsLowestOrLess = true
							}
						}
					}
				}
			case *ast.CallExpr:
				if sel, ok := s.Fun.(*ast.SelectorExpr); ok && self != nil && p.Info.Uses[sel.Sel] == self && len(s.Args) == 1 {
					if be, ok := s.Args[0].(*ast.BinaryExpr); ok && be.Op == token.ADD && precVar != nil && usesObj(p, be.X, precVar) {
						if v, ok := constInt(be.Y); ok {
							if rhsBump != -1 && rhsBump != v {
								unknown = append(unknown, fnClimb+": recursive calls with different increments")
							}
							rhsBump = v
						} else {
							unknown = append(unknown, fnClimb+": recursive call with a non-constant increment")
						}
					} else {
						unknown = append(unknown, fnClimb+": recursive call whose argument is not `precedence + K`")
					}
				}
			}
			return true
		})
		if fe := decls["Parser.parseExpression"]; fe != nil && fe.Body != nil {
			n := 0
			ast.Inspect(fe.Body, func(x ast.Node) bool {
				if call, ok := x.(*ast.CallExpr); ok {
					if sel, ok := call.Fun.(*ast.SelectorExpr); ok && self != nil && p.Info.Uses[sel.Sel] == self && len(call.Args) == 1 {
						n++
						if v, ok := constInt(call.Args[0]); ok {
							entryPrec = v
						}
					}
				}
				return true
			})
			if n != 1 {
				entryPrec = -1
			}
		}
	}
	if !usesTable {
		unknown = append(unknown, fnClimb+": `precedence := getOperatorPrecedence(operator)` not found")
	}
	if !stopIsLowestOrLess {
		unknown = append(unknown, fnClimb+": stop test `precedence == PREC_LOWEST || precedence < minPrec { break }` not found")
	}
	if rhsBump < 0 {
		unknown = append(unknown, fnClimb+": recursive call `parseBinaryPrec(precedence + K)` not found")
	}
	if entryPrec < 0 {
		unknown = append(unknown, "Parser.parseExpression: single call `parseBinaryPrec(<constant>)` not found")
	}
	fmt.Fprintf(&sb, "/-- `parseBinaryPrec`: `precedence := getOperatorPrecedence(operator)` -/\ndef climbUsesTable : Bool := %s\n", leanBool(usesTable))
	fmt.Fprintf(&sb, "/-- `parseBinaryPrec`: the loop stops on `precedence == PREC_LOWEST || precedence < minPrec` -/\ndef climbStopsBelowMin : Bool := %s\n", leanBool(stopIsLowestOrLess))
	fmt.Fprintf(&sb, "/-- `parseBinaryPrec`: the right operand is parsed by `parseBinaryPrec(precedence + K)`; K, or -1 -/\ndef climbRhsBump : Int := %d\n", rhsBump)
	fmt.Fprintf(&sb, "/-- `parseExpression`: starts with `parseBinaryPrec(P)`; P, or -1 -/\ndef climbEntryPrec : Int := %d\n\n", entryPrec)

	sb.WriteString("/-- constructs that fitted no schema (must be empty) -/\ndef unknown : List String := [\n")
	for i, u := range unknown {
		fmt.Fprintf(&sb, "  %s%s\n", leanStr(u), sepOf(i, len(unknown)))
	}
	sb.WriteString("]\n")
	sb.WriteString(footer("Prec"))
	var err error
	if len(unknown) > 0 {
		err = fmt.Errorf("%d construct(s) not recognised: %s", len(unknown), strings.Join(unknown, "; "))
	}
	return sb.String(), err
}

func sepOf(i, n int) string {
	if i == n-1 {
		return ""
	}
	return ","
}

func isStringObj(o types.Object) bool {
	if bt, ok := o.Type().Underlying().(*types.Basic); ok {
		return bt.Info()&types.IsString != 0
	}
	return false
}

func namedTypeName(t types.Type) string {
	if pt, ok := t.(*types.Pointer); ok {
		t = pt.Elem()
	}
	if nt, ok := t.(*types.Named); ok {
		return nt.Obj().Name()
	}
	return ""
}

// isTokenTypeField: selector `x.Type` on a value of the named type Token
func isTokenTypeField(p *Pkg, e ast.Expr) bool {
	sel, ok := e.(*ast.SelectorExpr)
	if !ok {
		return false
	}
	s := p.Info.Selections[sel]
	return s != nil && s.Kind() == types.FieldVal && namedTypeName(s.Recv()) == "Token" && s.Obj().Name() == "Type"
}

// isLocalVar: identifier resolving to a variable declared inside fd
func isLocalVar(p *Pkg, id *ast.Ident, fd *ast.FuncDecl) bool {
	o, ok := p.Info.Uses[id].(*types.Var)
	return ok && o.Pos() >= fd.Body.Pos() && o.Pos() <= fd.Body.End()
}

func usesObj(p *Pkg, e ast.Expr, o types.Object) bool {
	id, ok := e.(*ast.Ident)
	return ok && p.Info.Uses[id] == o
}
